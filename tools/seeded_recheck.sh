#!/bin/bash
# usage: tools/seeded_recheck.sh <name> <check ids...>
# Re-applies /verif/seeded/<name>/patch.diff to /repo, runs the given checks, reverts, and appends the outcome to meta.json.
name=$1; shift
out=/verif/seeded/$name
git -C /repo apply $out/patch.diff || { echo "patch does not apply"; exit 2; }
res=""
for id in "$@"; do
  o=$(cd /verif && /venv/bin/python run_check.py $id 2>&1); rc=$?
  sigs=$(echo "$o" | grep "signature=" | sed 's/.*signature=//' | sort -u | head -6 | tr '\n' ';')
  echo "check $id rc=$rc $sigs"
  res="$res{\"check\":\"$id\",\"exit\":$rc,\"signatures\":\"$sigs\"},"
done
git -C /repo checkout -- .
python3 - <<PY
import json
p="$out/meta.json"
m=json.load(open(p))
m.setdefault("rechecks",[]).append({"verif_commit":"$(git -C /verif rev-parse --short HEAD)","results":json.loads("[" + """$res""".rstrip(",") + "]")})
json.dump(m,open(p,"w"),indent=1)
PY
for id in "$@"; do (cd /verif && /venv/bin/python run_check.py $id > /dev/null 2>&1); done
