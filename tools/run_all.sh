#!/bin/bash
# Run every registered check (quick by default) and summarise exit codes.
tier=${1:-quick}
cd "$(dirname "$0")/.."
for id in $(python3 -c "import json; print(' '.join(c['property_id'] for c in json.load(open('MANIFEST.json'))['checks']))"); do
  out=$(/venv/bin/python run_check.py $id --tier $tier 2>&1); rc=$?
  echo "$id rc=$rc $(echo "$out" | grep -c '^KNOWN-FINDING') known | $(echo "$out" | tail -1)"
  if [ $rc -ne 0 ]; then echo "$out" | grep -E "VIOLATION|signature|HARNESS|Error" | head -8; fi
done
