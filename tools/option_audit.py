"""Option-coverage audit (a development aid, not a check).

With VERIF_AUDIT=<dir> in the environment, ``env.setup()`` calls ``install()``:
every function and method defined in the aspire package is wrapped so that each
call records, per parameter, an abstract description of the argument value
(type / None / small scalars / dtype / namespace).  ``python tools/option_audit.py
report <dir>`` lists, per function, the parameters that were only ever seen with
one abstract value over all audited check runs - the options no check varies,
which is where a change can hide (DESIGN.md 11.5: every seeded change that was
missed on arrival needed a non-default option or a non-initial object)."""
import functools
import inspect
import json
import os
import sys

SEEN = {}
_out = None
_dirty = 0


def abstract(v):
    if v is None or isinstance(v, bool):
        return repr(v)
    if isinstance(v, (int, float)):
        return f"{type(v).__name__}:{v!r}"[:40]
    if isinstance(v, str):
        return f"str:{v[:24]}"
    if isinstance(v, (list, tuple)):
        return f"{type(v).__name__}[{len(v)}]" + (":" + abstract(v[0]) if len(v) else "")
    if isinstance(v, dict):
        return "dict{" + ",".join(sorted(map(str, v.keys()))[:8]) + "}"
    if inspect.ismodule(v):
        return "module:" + v.__name__
    mod = type(v).__module__.split(".")[0]
    if hasattr(v, "dtype") and hasattr(v, "shape"):
        return f"{mod}.array:{v.dtype}:ndim{len(v.shape)}"
    if callable(v) and not inspect.isclass(v):
        return "callable"
    return f"{type(v).__module__.split('.')[0]}.{type(v).__name__}"


def flush():
    global _dirty
    if _out is None or not _dirty:
        return
    with open(_out, "w") as f:
        json.dump({k: sorted(v) for k, v in SEEN.items()}, f)
    _dirty = 0


def wrap(fn, qual):
    try:
        sig = inspect.signature(fn)
    except (TypeError, ValueError):
        return fn
    params = [p for p in sig.parameters.values()]
    if not any(p.name not in ("self", "cls") for p in params):
        return fn

    @functools.wraps(fn)
    def wrapper(*a, **k):
        global _dirty
        try:
            b = sig.bind_partial(*a, **k)
            for p in params:
                if p.name in ("self", "cls"):
                    continue
                if p.name in b.arguments:
                    val = b.arguments[p.name]
                    if p.kind is p.VAR_KEYWORD:
                        for kk, vv in val.items():
                            key = f"{qual}(**{kk})"
                            s = SEEN.setdefault(key, set())
                            av = abstract(vv)
                            if av not in s and len(s) < 12:
                                s.add(av)
                                _dirty += 1
                        continue
                    if p.kind is p.VAR_POSITIONAL:
                        continue
                    av = abstract(val)
                else:
                    av = "<default>"
                s = SEEN.setdefault(f"{qual}({p.name})", set())
                if av not in s and len(s) < 12:
                    s.add(av)
                    _dirty += 1
            if _dirty:  # pool workers are terminated without running exit handlers: write every new observation at once
                flush()
        except Exception:
            pass
        return fn(*a, **k)

    wrapper.__audit_wrapped__ = True
    return wrapper


def install():
    global _out
    d = os.environ["VERIF_AUDIT"]
    os.makedirs(d, exist_ok=True)
    _out = os.path.join(d, f"{os.environ.get('VERIF_AUDIT_TAG', 'run')}-{os.getpid()}.json")
    import importlib
    import pkgutil

    import aspire

    mods = [aspire]
    for m in pkgutil.walk_packages(aspire.__path__, "aspire."):
        try:
            mods.append(importlib.import_module(m.name))
        except Exception:
            pass
    mapping = {}
    for mod in mods:
        for name, obj in list(vars(mod).items()):
            if inspect.isfunction(obj) and obj.__module__ == mod.__name__ and not getattr(obj, "__audit_wrapped__", False):
                w = wrap(obj, f"{mod.__name__}.{name}")
                mapping[id(obj)] = (obj, w)
                setattr(mod, name, w)
            elif inspect.isclass(obj) and obj.__module__ == mod.__name__:
                for mname, m in list(vars(obj).items()):
                    if inspect.isfunction(m) and not getattr(m, "__audit_wrapped__", False):
                        setattr(obj, mname, wrap(m, f"{mod.__name__}.{obj.__name__}.{mname}"))
    for mod in mods:  # names imported from the defining module into other aspire modules
        for name, obj in list(vars(mod).items()):
            if id(obj) in mapping and mapping[id(obj)][0] is obj:
                setattr(mod, name, mapping[id(obj)][1])
    import atexit

    atexit.register(flush)
    try:
        from multiprocessing import util

        util.Finalize(None, flush, exitpriority=1)
    except Exception:
        pass


def report(d):
    agg = {}
    for fn in os.listdir(d):
        if fn.endswith(".json"):
            try:
                data = json.load(open(os.path.join(d, fn)))
            except Exception:
                continue
            for k, v in data.items():
                agg.setdefault(k, set()).update(v)
    single = {k: sorted(v) for k, v in agg.items() if len(v) == 1}
    print(f"{len(agg)} (function, parameter) pairs seen; {len(single)} with a single abstract value:")
    for k in sorted(single):
        print(f"  {k}: {single[k][0]}")
    return agg


if __name__ == "__main__":
    if sys.argv[1] == "report":
        report(sys.argv[2])
