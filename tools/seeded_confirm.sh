#!/bin/bash
# usage: tools/seeded_confirm.sh <PID> <name>
# Confirms a sub-agent's change in its own scratch worktree /tmp/mut/<name> (suite with the change, demo with / without it)
# and stores patch + demo + meta.json under /verif/seeded/<name>/.  Does not touch /repo.  No git stash (shared between worktrees).
pid=$1; name=$2
wt=/tmp/mut/$name
out=/verif/seeded/$name
mkdir -p $out
git -C $wt diff -- src > $out/patch.diff
[ -s $out/patch.diff ] || { echo "empty patch"; exit 2; }
rm -rf $out/demo; cp -r $wt/demo $out/demo 2>/dev/null; rm -rf $out/demo/__pycache__ $out/demo/.pytest_cache; find $out/demo -name "*.pyc" -delete; find $out/demo -name "__pycache__" -type d -exec rm -rf {} + 2>/dev/null
suite=$(/tmp/mut/check_tests.sh $wt | tail -1)
demo_cmd="cd $wt && PYTHONPATH=$wt/src /venv/bin/python -m pytest -q -p no:cacheprovider -p no:xdist --no-cov demo 2>&1 | tail -1"
with=$(bash -c "$demo_cmd")
cp $out/patch.diff /tmp/mut/.$name.saved.diff; git -C $wt checkout -- src
without=$(bash -c "$demo_cmd")
git -C $wt apply /tmp/mut/.$name.saved.diff
python3 - <<PY
import json
meta={"breaks_property":"$pid","name":"$name","suite_with_change":"""$suite""","demo_with_change":"""$with""","demo_without_change":"""$without""","confirmed_in":"$wt (scratch worktree of /repo HEAD $(git -C /repo rev-parse --short HEAD))","checks_run":[]}
try:
    meta["needs_to_manifest"]=open("$out/demo/README.md").read()[:1800]
except Exception: pass
json.dump(meta,open("$out/meta.json","w"),indent=1)
PY
echo "$name: suite[$suite] with[$with] without[$without]"
