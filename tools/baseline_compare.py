#!/usr/bin/env python3
"""Compare a junit xml of the repository's suite with BASELINE.json's stable_pass list."""
import json
import sys
import xml.etree.ElementTree as ET

base = json.load(open("/root/.vp/BASELINE.json"))
want = set(base["stable_pass"])
tree = ET.parse(sys.argv[1])
passed = set()
for tc in tree.iter("testcase"):
    name = f"{tc.get('classname')}::{tc.get('name')}"
    if not any(ch.tag in ("failure", "error", "skipped") for ch in tc):
        passed.add(name)
missing = sorted(want - passed)
print(f"baseline stable_pass={len(want)} passed_now={len(passed)} missing={len(missing)}")
for m in missing[:40]:
    print("  MISSING", m)
sys.exit(1 if missing else 0)
