#!/bin/bash
# usage: tools/seeded.sh <PID> <name> [extra check ids...]
# Takes the uncommitted change of the sub-agent worktree /tmp/mut/<name-or-PID>, confirms it (suite, demo with/without)
# in that scratch worktree, stores it under /verif/seeded/<name>/, applies it to /repo, runs the check(s), reverts.
pid=$1; name=$2; shift 2; extra="$@"
wt=/tmp/mut/$name
[ -d "$wt" ] || wt=/tmp/mut/$pid
out=/verif/seeded/$name
mkdir -p $out
git -C $wt diff > $out/patch.diff
[ -s $out/patch.diff ] || { echo "empty patch"; exit 2; }
rm -rf $out/demo; cp -r $wt/demo $out/demo 2>/dev/null; rm -rf $out/demo/__pycache__ $out/demo/.pytest_cache
# 1. suite with the change
suite=$(/tmp/mut/check_tests.sh $wt | tail -1)
echo "suite with change: $suite"
# 2. demo with / without
demo_cmd="cd $wt && PYTHONPATH=$wt/src /venv/bin/python -m pytest -q -p no:cacheprovider -x demo 2>&1 | tail -1"
with=$(bash -c "$demo_cmd")
git -C $wt diff > /tmp/mut/.$name.saved.diff; git -C $wt checkout -- src
without=$(bash -c "$demo_cmd")
git -C $wt apply /tmp/mut/.$name.saved.diff
echo "demo with change: $with"; echo "demo without: $without"
# 3. checks against /repo
git -C /repo apply $out/patch.diff || { echo "patch does not apply to /repo"; exit 2; }
res=""
for id in $pid $extra; do
  o=$(cd /verif && /venv/bin/python run_check.py $id 2>&1); rc=$?
  sigs=$(echo "$o" | grep "signature=" | sed 's/.*signature=//' | sort -u | head -5 | tr '\n' ';')
  echo "check $id rc=$rc $sigs"
  res="$res{\"check\":\"$id\",\"exit\":$rc,\"signatures\":\"$sigs\"},"
done
git -C /repo checkout -- .
git -C /repo status --short | head -3
python3 - <<PY
import json
meta={"breaks_property":"$pid","name":"$name","suite_with_change":"""$suite""","demo_with_change":"""$with""","demo_without_change":"""$without""",
"checks_run":json.loads("[" + """$res""".rstrip(",") + "]")}
try:
    meta["needs_to_manifest"]=open("$out/demo/README.md").read()[:1500]
except Exception: pass
json.dump(meta,open("$out/meta.json","w"),indent=1)
PY
# restore evidence of the unchanged tree
for id in $pid $extra; do (cd /verif && /venv/bin/python run_check.py $id > /dev/null 2>&1); done
echo done
