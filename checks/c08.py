"""C08 SMC evidence is the accumulated product of incremental ratios.

Full-tree exploration (all resampling index tuples, all environment population
choices) of the real SMC loop for N in {2,3}, <=3 iterations, recomputing every
per-step ratio/variance and the final sum from the stored populations in
extended precision, plus differential runs sharing every choice: with/without
n_final_samples, with/without checkpoint callback (cadence 1, 2)."""
import copy

import numpy as np

from env.schedule_harness import run_execution
from mc import explorer
from mc.par import pmap
from mc.report import Report
from oracles.smc_oracles import check_evidence

LEVEL = "exploration"
RULE = ("complete choice tree (no deviation bound) of the real SMC loop with N in {2,3}: initial population and population "
        "after each of the first 2 iterations chosen from {flat, spread 3, spread 1e3} (the initial one also from a population with a zero-likelihood particle), every resampling index tuple with "
        "non-zero probability; schedules: fixed n=1,2,3, adaptive (eff 0.5/0.9), adaptive+min_step, floor+cap, and runs that the step cap ends below temperature 1; each execution is paired "
        "with a run sharing all choices that adds n_final_samples or a checkpoint callback (every 1 / 2); continuous 2-D runs are interrupted at every user-callable call and resumed from the last checkpoint (pickled bytes, the live dictionary, and the pickled bytes handed back to the interrupted sampler object itself) and must report the same ratios and evidence. "
        "Plus the per-step ratio and variance methods on populations in {numpy, torch, jax} x {float32, float64} against the definitions. non-trivial = at least one step whose incremental weights are not all equal")
ASSUMPTIONS = [
    "teleport kernel stub (evidence accumulation does not depend on how the kernel moves particles)",
    "populations with log-weight spread in {0, 3, 1e3}; N<=3; <=3 iterations enumerated",
]

SCHEDULES = [
    {"adaptive": False, "n_steps": 1},
    {"adaptive": False, "n_steps": 2},
    {"adaptive": False, "n_steps": 3},
    {"adaptive": True},
    {"adaptive": True, "target_efficiency": 0.9},
    {"adaptive": True, "min_step": 0.4},
    {"adaptive": True, "target_efficiency": (0.3, 0.8), "max_n_steps": 3, "min_step": 0.2},
    # runs that the step cap ends below temperature 1
    {"adaptive": False, "n_steps": 3, "max_n_steps": 2},
    {"adaptive": True, "target_efficiency": 0.9, "min_step": 0.2, "max_n_steps": 2},
]


def configs(tier):
    out = []
    for sampler in ("smc", "emcee_smc"):
        for o in SCHEDULES:
            if sampler == "emcee_smc" and ("min_step" in o or "max_n_steps" in o):
                continue
            # complete trees: N=2, environment deviates in the first 2 iterations / 2 resamplings
            if not (tier == "quick" and o.get("n_steps") == 3):
                out.append({"N": 2, "opts": dict(o), "sampler": sampler, "menu": ["flat", "mild", "peaked"],
                            "max_decisions": 2, "max_resamplings": 2, "bound": None})
            # N=3: all executions with <= 2 (quick) / 3 (thorough) deviations
            if sampler == "smc" or tier == "thorough":
                out.append({"N": 3, "opts": dict(o), "sampler": sampler, "menu": ["flat", "mild", "peaked"],
                            "max_decisions": 3, "max_resamplings": 3, "bound": 2 if tier == "quick" else 3})
    # non-initial state: the same sampler object has already completed another run
    for sampler in ("smc", "emcee_smc"):
        out.append({"N": 2, "opts": {"adaptive": False, "n_steps": 2}, "sampler": sampler, "menu": ["flat", "mild", "peaked"],
                    "max_decisions": 2, "max_resamplings": 2, "bound": None, "prior_call": {"adaptive": False, "n_steps": 2}})
        out.append({"N": 3, "opts": {"adaptive": True, "target_efficiency": 0.9}, "sampler": sampler, "menu": ["flat", "mild", "peaked"],
                    "max_decisions": 3, "max_resamplings": 3, "bound": 2, "prior_call": {"adaptive": True, "target_efficiency": 0.9}})
    return out


def variants(cfg):
    v1 = copy.deepcopy(cfg)
    v1["opts"]["n_final_samples"] = cfg["N"] + 1
    v2 = copy.deepcopy(cfg)
    v2["checkpoint_every"] = 1
    v3 = copy.deepcopy(cfg)
    v3["checkpoint_every"] = 2
    return [("n_final_samples", v1), ("checkpoint_every=1", v2), ("checkpoint_every=2", v3)]


def run_tree(cfg):
    r = Report()
    n = 0
    vs = variants(cfg)
    for ex in explorer.explore(lambda ctx: run_execution(ctx, cfg), bound=cfg.get("bound"), weighted=False):
        rec = ex.result
        n += 1
        h = rec["history"]
        sh = h["sample_history"] if h else []
        nontriv = any(len(set(l + p - q for l, p, q in zip(s["L"], s["P"], s["Q"]))) > 1 for s in sh[:-1])
        r.case(explorer.digest([cfg, ex.choices]), nontrivial=nontriv)
        case = {"cfg": cfg, "choices": ex.choices}
        if rec["exception"] is not None:
            from oracles.smc_oracles import check_schedule

            if any(sig.startswith("C06/") for sig, _ in check_schedule(rec)):
                r.count("observation:run-ended-by-a-schedule-failure (C06's business)")
            else:
                r.violation(f"C08/exception/{rec['exception'][0]}/{rec['exception'][1]}", rec["exception"], case)
            continue
        r.outcomes.add(explorer.digest(rec["result"]["log_evidence"]))
        for sig, detail in check_evidence(rec):
            r.violation(sig, detail, case)
        # differential: same choices, one option changed
        for name, vcfg in vs:
            ex2 = explorer.run_one(lambda ctx: run_execution(ctx, vcfg), ex.choices)
            rec2 = ex2.result
            r.case(explorer.digest([vcfg, ex.choices]), nontrivial=nontriv)
            if rec2["exception"] is not None:
                from oracles.smc_oracles import check_schedule

                if not any(sig.startswith("C06/") for sig, _ in check_schedule(rec2)):
                    r.violation(f"C08/exception/{name}/{rec2['exception'][0]}/{rec2['exception'][1]}", rec2["exception"],
                                {"cfg": vcfg, "choices": ex.choices})
                continue
            a, b = rec["result"], rec2["result"]
            if a["log_evidence"] != b["log_evidence"] or a["log_evidence_error"] != b["log_evidence_error"]:
                r.violation(f"C08/differential/{name}", {"base": a, "variant": b}, {"cfg": vcfg, "choices": ex.choices, "base_cfg": cfg})
            if rec["history"]["log_norm_ratio"] != rec2["history"]["log_norm_ratio"]:
                r.violation(f"C08/differential-ratios/{name}", {"base": rec["history"]["log_norm_ratio"],
                                                                "variant": rec2["history"]["log_norm_ratio"]},
                            {"cfg": vcfg, "choices": ex.choices, "base_cfg": cfg})
            for sig, detail in check_evidence(rec2):
                r.violation(sig + "/" + name, detail, {"cfg": vcfg, "choices": ex.choices})
    r.sample({"cfg": cfg, "executions": n})
    r.count("complete_trees" if cfg.get("bound") is None else "deviation_bounded_trees")
    return r.dump()


def run_interrupted(cfg):
    """The estimate does not depend on whether the run was checkpointed, interrupted and resumed: fault at every
    user-callable call, resume from the last checkpoint (pickled bytes and the live dictionary the callback received)."""
    from checks.c18 import to_rec
    from env import resume_harness as rh

    r = Report()
    R = rh.run(cfg)
    if R.exception is not None:
        r.case(explorer.digest(["ref", cfg]))
        r.violation(f"C08/interrupted/run-raises/{R.exception[0]}", R.exception, {"interrupted": True, "cfg": cfg})
        return r.dump()
    ref = (R.result["log_evidence"], R.result["log_evidence_error"], R.history["log_norm_ratio"])
    for k in range(R.n_calls):
        F = rh.run(cfg, fault_at=k)
        if not F.sink:
            r.case(explorer.digest([cfg, k]), nontrivial=False)
            continue
        for route, src in (("bytes", F.sink[-1][1]), ("live-dict", F.live[-1]), ("same-sampler-object", F.sink[-1][1])):
            # the last route asks the interrupted sampler object itself to carry on (it consumes F: kept last)
            rr = rh.resume_on_same_sampler(F, src) if route == "same-sampler-object" else rh.run(cfg, resume_from=src)
            case = {"interrupted": True, "cfg": cfg, "crash_point": k, "route": route}
            r.case(explorer.digest([cfg, k, route]), nontrivial=True)
            if rr.exception is not None:
                r.violation(f"C08/interrupted/resume-raises/{route}/{rr.exception[0]}", rr.exception, case)
                continue
            got = (rr.result["log_evidence"], rr.result["log_evidence_error"], rr.history["log_norm_ratio"])
            if got[2] != ref[2]:
                kind = "ratio-counted-twice" if len(got[2]) > len(ref[2]) else "ratios-differ"
                r.violation(f"C08/interrupted/{kind}/{route}", {"reference": ref[2], "resumed": got[2]}, case)
            elif got[:2] != ref[:2]:
                r.violation(f"C08/interrupted/evidence-differs/{route}", {"reference": ref[:2], "resumed": got[:2]}, case)
            for sig, detail in check_evidence(dict(to_rec(rr), result=rr.result)):
                r.violation(sig + "/resumed-" + route, detail, case)
    # the resuming call may name another n_samples (nothing is drawn on resume, the population is the checkpoint's):
    # the ratios and variances of the remaining steps are those of the stored populations
    seen = set()
    for it, payload in R.sink:
        if it in seen or it >= len(R.history["beta"]):
            continue
        seen.add(it)
        for other in (cfg["N"] * 2, max(2, cfg["N"] // 2)):
            rr = rh.run(dict(cfg, N=other), resume_from=payload)
            case = {"interrupted": True, "cfg": cfg, "resumed_from_iteration": it, "n_samples_of_the_resuming_call": other}
            r.case(explorer.digest([cfg, "other-n", it, other]), nontrivial=True)
            if rr.exception is not None:
                r.violation(f"C08/interrupted/resume-raises/other-n_samples/{rr.exception[0]}", rr.exception, case)
                continue
            for sig, detail in check_evidence(dict(to_rec(rr), result=rr.result)):
                r.violation(sig + "/resumed-with-another-n_samples", detail, case)
    r.sample({"interrupted": True, "cfg": cfg, "crash_points": R.n_calls})
    return r.dump()


def run_plain(cfg):
    """One uninterrupted run on the continuous problem in another namespace / width: the returned evidence and error are the
    sum of the recorded increments and the root of the summed variances, to the precision of that width."""
    from checks.c18 import to_rec
    from env import resume_harness as rh

    r = Report()
    case = {"plain": True, "cfg": cfg}
    r.case(explorer.digest(case), nontrivial=True)
    R = rh.run(cfg)
    if R.exception is not None:
        r.violation(f"C08/plain/run-raises/{R.exception[0]}", R.exception, case)
        return r.dump()
    for sig, detail in check_evidence(dict(to_rec(R), result=R.result)):
        r.violation(sig + f"/{cfg.get('ns', 'numpy')}-{cfg.get('dtype') or 'default'}", detail, case)
    r.outcomes.add(explorer.digest(R.result["log_evidence"]))
    r.sample(case)
    return r.dump()


def dispatch(job):
    return globals()[job[0]](job[1])


def run_direct(arg):
    """The per-step ratio and its variance, evaluated on populations of every namespace and width, against the definitions."""
    ns, dt = arg
    import mpmath as mp

    from checks.c09 import build
    from env import tonp
    from oracles import ref

    r = Report()
    eps = 1.2e-7 if dt == "float32" else 2.3e-16
    pops = [[0.0, -3.0], [0.0, -1.0, -2.5, -0.3], [0.0, -40.0, -5.0], [2.0, 2.0, 2.0], [0.0, -1.0, -2.0, -3.0, -4.0, -0.5, -7.0],
            [0.0, -float("inf"), -1.0, -2.0]]
    for a in pops:
        for b0, b1 in ((0.0, 0.3), (0.3, 1.0), (0.25, 0.75), (0.0, 1.0)):
            case = {"direct": True, "ns": ns, "dtype": dt, "a": [v if v > -1e300 else "-inf" for v in a], "betas": [b0, b1]}
            r.case(explorer.digest(case), nontrivial=len(set(a)) > 1)
            try:
                s = build(a, ns, dt, b0)
                ratio = float(tonp(s.log_evidence_ratio(b1)))
                var = float(tonp(s.log_evidence_ratio_variance(b1)))
            except Exception as e:
                from env import exc_site

                r.violation(f"C08/direct/raises/{type(e).__name__}/{exc_site(e)}/{ns}", repr(e)[:200], case)
                continue
            # reference on the stored (rounded) fields
            aa = (tonp(s.log_likelihood).astype(np.float64) + tonp(s.log_prior).astype(np.float64) - tonp(s.log_q).astype(np.float64)).tolist()
            logu = [(b1 - b0) * v if v > -1e300 else -float("inf") for v in aa]
            lr = float(ref.log_mean_exp(logu))
            v_ref = float(ref.delta_var(logu))
            scale = 1 + max(abs(v) for v in logu if v > -1e300)
            if not abs(ratio - lr) <= 64 * eps * scale:
                r.violation(f"C08/direct/step-ratio/{ns}", {"got": ratio, "ref": lr}, case)
            # relative to the variance, plus the variance that rounding noise of size eps*scale in the weights produces by itself
            if not abs(var - v_ref) <= 256 * eps * scale * v_ref + (64 * eps * scale) ** 2:
                r.violation(f"C08/direct/step-variance/{ns}", {"got": var, "ref": v_ref, "n": len(a)}, case)
            r.outcomes.add(explorer.digest([round(lr, 9), round(v_ref, 9)]))
    r.sample({"direct": True, "ns": ns, "dtype": dt})
    return r.dump()


def run(tier, seed, workers):
    rep = Report()
    jobs = [("run_tree", c) for c in configs(tier)]
    jobs += [("run_direct", (ns, dt)) for ns in ("numpy", "torch", "jax") for dt in ("float64", "float32")]
    for sampler in ("smc", "emcee_smc"):
        for ns, dt in (("torch", "float64"), ("numpy", "float64")):
            for nf in (None, 10):
                jobs.append(("run_plain", {"sampler": sampler, "N": 8, "opts": {"adaptive": True, "target_efficiency": 0.8}, "cadence": None, "n_final": nf,
                                           "precond": "none", "seed": 0, "ns": ns, "dtype": dt}))
    for sampler in ("smc", "emcee_smc"):
        for opts in ({"adaptive": True, "target_efficiency": 0.8}, {"adaptive": False, "n_steps": 3}):
            for cadence in (1, 2):
                for nfinal in (None, 10):
                    if tier == "quick" and nfinal and cadence == 2:
                        continue
                    jobs.append(("run_interrupted", {"sampler": sampler, "N": 8, "opts": opts, "cadence": cadence, "n_final": nfinal,
                                                     "precond": "none", "seed": seed if cadence == 2 else 0}))
    for d in pmap("checks.c08", "dispatch", jobs, workers):
        rep.merge(d)
    return rep


def replay(case):
    from checks.c06 import _fix

    r = Report()
    if case.get("plain"):
        r.merge(run_plain(case["cfg"]))
        return r
    if case.get("direct"):
        r.merge(run_direct((case["ns"], case["dtype"])))
        return r
    if case.get("interrupted"):
        cfg = case["cfg"]
        r.merge(run_interrupted(cfg))
        return r
    cfg = _fix(case["cfg"])
    ex = explorer.run_one(lambda ctx: run_execution(ctx, cfg), case["choices"])
    r.case("replay")
    rec = ex.result
    if rec["exception"] is not None:
        r.violation(f"C08/exception/{rec['exception'][0]}/{rec['exception'][1]}", rec["exception"], case)
    for sig, detail in check_evidence(rec):
        r.violation(sig, detail, case)
    if "base_cfg" in case:
        exb = explorer.run_one(lambda ctx: run_execution(ctx, _fix(case["base_cfg"])), case["choices"])
        if exb.result["result"] != rec["result"] and (exb.result["result"]["log_evidence"] != rec["result"]["log_evidence"]):
            r.violation("C08/differential", {"base": exb.result["result"], "variant": rec["result"]}, case)
    return r
