"""C05 Kernels are handed the correct (tempered) target in the preconditioned space.

Grid enumeration: sampler class x preconditioning x namespace x beta x z grid x
user-function menu, against an independently computed tempered target whose
log-Jacobian comes from finite differences of the sampler's *own* inverse map;
plus the target as seen by the kernel in real runs (stale-temperature check)."""
import itertools
import math

import numpy as np

from env import get_dtype, get_xp, tonp
from env.flows import AnalyticFlow
from env.targets import Monitor, box_logprior, gauss_loglike
from mc import explorer
from mc.par import pmap
from mc.report import Report

LEVEL = "exploration"
RULE = ("sampler class {MiniPCNSMC, EmceeSMC, BlackJAXSMC, Emcee, MiniPCN} x preconditioning {none, default+periodic, logit, "
        "probit, affine (3 fitted populations), logit+affine, flow(zuko)} x namespace (as the class supports) x beta in "
        "{1e-6,0.3,1} x z grid {0,+-0.5,+-3,+-12,+-40}^d (d=1,2; saturating values only where the map is not saturated) x user "
        "functions {smooth, likelihood NaN outside prior, likelihood -inf on a half-line, proposal -inf off a window}; oracle: "
        "(1-beta) q(x)+beta(L(x)+pi(x))+log|det dx/dz| with x and the Jacobian obtained from the sampler's own inverse map by "
        "central differences (for the pure logit map also the far tails z in {+-16, +-25, 30}, beyond the forward map's clipping margin, against the closed-form Jacobian); zero prior => exactly -inf; NaN => -inf (SMC). Plus: in real runs the function handed to the "
        "kernel is probed at every invocation and must be the target at the temperature just recorded; for BlackJAXSMC every (z, value) pair the stand-in rwmh kernel evaluates (under whatever jit/vmap/scan the sampler wraps it in) is exported at run time and compared with the target under the transform fitted for that mutation. "
        "non-trivial = point with finite target under a non-identity map or a zero-prior / NaN point")
ASSUMPTIONS = [
    "finite z grid and option menu (checks/c05.py)",
    "log-Jacobian reference by central differences (abs/rel tolerance 2e-4); analytic log-Jacobians are checked tightly by C04",
    "BlackJAXSMC.log_prob is called directly (no blackjax needed); NUTS/HMC gradients are out of reach without blackjax",
]

LO, HI = np.array([-2.0, 0.0]), np.array([6.0, 2 * math.pi])


def user_menu(name, d):
    lo, hi = LO[:d], HI[:d]
    prior = box_logprior(lo, hi)
    like0 = gauss_loglike([1.0, 2.0][:d], [0.8, 1.1][:d])
    if name == "smooth":
        like = like0
    elif name == "nan-outside":
        def like(x):
            v = like0(x)
            return np.where(np.isfinite(prior(x)), v, np.nan)
    elif name == "neginf-halfline":
        def like(x):
            x = np.asarray(x).reshape(len(x), -1)
            return np.where(x[:, 0] > 3.0, -np.inf, like0(x))
    else:
        raise ValueError(name)
    return like, prior


def build_sampler(cls, precond, ns, d, menu, window, dtype=None):
    from aspire import Aspire
    from env import get_dtype

    xp = get_xp(ns)
    like, prior = user_menu(menu, d)
    mon = Monitor(like, prior, ns, keep_points=False)
    params = ["a", "b"][:d]
    lo, hi = LO[:d], HI[:d]
    fdt = get_dtype(ns, dtype)
    if window:
        flow = AnalyticFlow(d, sigma=None, lo=lo + 0.5, hi=hi - 0.25, seed=0, xp_name=ns, dtype=fdt)
    else:
        flow = AnalyticFlow(d, mu=[1.5, 3.0][:d], sigma=[2.0, 1.5][:d], seed=0, xp_name=ns, dtype=fdt)
    bounds = {p: [float(l), float(h)] for p, l, h in zip(params, lo, hi)}
    periodic = None
    pk = None
    pre = "default"
    if precond == "none":
        pre = "none"
    elif precond == "periodic":
        periodic = [params[-1]]
    elif precond in ("logit", "probit"):
        pk = {"bounded_to_unbounded": True, "bounded_transform": precond}
    elif precond == "affine":
        pk = {"affine_transform": True}
    elif precond == "logit+affine":
        pk = {"bounded_to_unbounded": True, "bounded_transform": "logit", "affine_transform": True}
    elif precond == "flow":
        pre = "flow"
        pk = {"fit_kwargs": {"n_epochs": 2, "batch_size": 16}, "bounded_transform": "logit"}
    a = Aspire(log_likelihood=mon.log_likelihood, log_prior=mon.log_prior, dims=d, parameters=params, prior_bounds=bounds,
               periodic_parameters=periodic, flow=flow, xp=xp, flow_backend="zuko", **({"dtype": fdt} if dtype else {}))
    kw = {}
    smp = a.init_sampler(cls, preconditioning=pre, preconditioning_kwargs=pk, **kw)
    return a, smp, mon, flow, like, prior


POPS = {
    0: lambda d, lo, hi: lo + (hi - lo) * np.array([[0.2, 0.3], [0.5, 0.6], [0.8, 0.4], [0.35, 0.9], [0.6, 0.15]])[:, :d],
    1: lambda d, lo, hi: lo + (hi - lo) * np.array([[0.45, 0.5], [0.5, 0.52], [0.55, 0.48], [0.52, 0.55]])[:, :d],
    2: lambda d, lo, hi: lo + (hi - lo) * np.array([[0.05, 0.9], [0.95, 0.1], [0.5, 0.5], [0.1, 0.2], [0.9, 0.8], [0.3, 0.6]])[:, :d],
}

SAMPLERS = {"smc": "MiniPCNSMC", "emcee_smc": "EmceeSMC", "blackjax_smc": "BlackJAXSMC", "emcee": "Emcee", "minipcn": "MiniPCN"}
IS_SMC = {"smc", "emcee_smc", "blackjax_smc"}


def zgrid(precond, d, tier):
    vals = [0.0, 0.5, -0.5, 3.0, -3.0, 12.0, -12.0, 40.0, -40.0]
    if precond in ("logit", "logit+affine"):
        vals = [0.0, 0.5, -0.5, 3.0, -3.0, 7.0, -7.0]
    if precond == "flow":
        vals = [0.0, 0.5, -0.5, 1.5, -1.5, 3.0, -3.0]  # float32 flow: finite differences unusable in the far tails
    if precond == "probit":
        vals = [0.0, 0.5, -0.5, 3.0, -3.0, 5.0, -5.0]  # beyond |z|~5 finite differences of Phi are ill-conditioned
    if precond == "none":
        vals = [0.0, 0.5, -0.5, 3.0, -3.0, 5.5, 12.0, -12.0, 40.0, -40.0]
    if precond == "periodic":
        # keep clear of the seam (z == lower/upper), where the wrapped map is not differentiable
        vals = [0.37, 0.87, -0.13, 3.37, -2.63, 5.87, 12.37, -11.63, 40.37, -39.63]
    # far tails of the logit coordinate (beyond the clipping margin of the forward map: kernels propose there);
    # the reference log-Jacobian is analytic for these points
    tails = [16.0, -16.0, 25.0, -25.0, 30.0] if precond == "logit" else []
    if d == 1:
        return np.array(vals + tails).reshape(-1, 1)
    pts = [(a, b) for a in vals[:7] for b in vals[:5]] + [(vals[-1], vals[1]), (vals[1], vals[-1])]
    if tails:
        pts += [(16.0, 0.5), (-25.0, -0.5), (0.5, 30.0), (25.0, -16.0)]
    return np.array(pts)


def logit_logdet(z, lo, hi):
    """log|det dx/dz| of x = lo + (hi - lo) * sigmoid(z), stable for any z."""
    tot = 0.0
    for y, l, h in zip(z, lo, hi):
        tot += math.log(h - l) - abs(y) - 2 * math.log1p(math.exp(-abs(y)))
    return tot


def fd_logdet(inv, z, h=1e-5):
    d = len(z)
    J = np.zeros((d, d))
    for j in range(d):
        e = np.zeros(d)
        hj = h * max(1.0, abs(z[j]))
        e[j] = hj
        J[:, j] = (inv(z + e) - inv(z - e)) / (2 * hj)
    s, ld = np.linalg.slogdet(J)
    return ld


def run_config(arg):
    cls, precond, ns, d, menu, window, pop_id, tier = arg[:8]
    dtype = arg[8] if len(arg) > 8 else None  # a precision requested by the user (torch's default is float32)
    r = Report()
    case0 = {"sampler": cls, "precond": precond, "ns": ns, "d": d, "menu": menu, "window": window, "pop": pop_id}
    if dtype:
        case0["dtype"] = dtype
    try:
        a, smp, mon, flow, like, prior = build_sampler(cls, precond, ns, d, menu, window, dtype)
        xp = get_xp(ns)
        lo, hi = LO[:d], HI[:d]
        pop = POPS[pop_id](d, lo, hi)
        if "affine" in precond or precond == "flow":
            # non-initial state: the preconditioning transform was fitted before on another population
            # (the samplers refit it at every iteration)
            other = POPS[2 if pop_id != 2 else 0](d, lo, hi)  # >= 5 rows (a flow fit needs a validation split)
            smp.fit_preconditioning_transform(xp.asarray(other))
        smp.fit_preconditioning_transform(xp.asarray(pop))
    except Exception as e:
        from env import exc_site

        r.case(explorer.digest(case0))
        r.violation(f"C05/{cls}/setup-raises/{type(e).__name__}/{exc_site(e)}/{precond}/{ns}", repr(e)[:200], case0)
        return r.dump()
    tr = smp.preconditioning_transform

    def inv_np(zrow):
        out = tr.inverse(_to_tr(zrow.reshape(1, -1)))[0]
        return tonp(out).astype(np.float64).reshape(-1)

    def _to_tr(arr):
        txp = tr.xp
        return txp.asarray(np.asarray(arr, dtype=np.float64))

    Z = zgrid(precond, d, tier)
    betas = [1e-6, 0.3, 1.0] if cls in IS_SMC else [None]
    # which array type does the kernel hand to log_prob?  emcee always numpy; minipcn the sampler's namespace
    kernel_ns = "numpy" if cls in ("emcee_smc", "emcee") else ("jax" if cls == "blackjax_smc" else ns)
    for beta in betas:
        for i in range(0, len(Z), 8):
            zb = Z[i:i + 8]
            zin = get_xp(kernel_ns).asarray(zb)
            case = dict(case0, beta=beta, z=zb.tolist())
            try:
                val = smp.log_prob(zin, beta) if beta is not None else smp.log_prob(zin)
                val = tonp(val).astype(np.float64).reshape(-1)
            except Exception as e:
                from env import exc_site

                r.case(explorer.digest(case))
                r.violation(f"C05/{cls}/log_prob-raises/{type(e).__name__}/{exc_site(e)}/{precond}/{ns}<-{kernel_ns}", repr(e)[:200], case)
                continue
            for k, z in enumerate(zb):
                c = dict(case0, beta=beta, z=z.tolist())
                x = inv_np(z)
                with np.errstate(all="ignore"):
                    L = float(like(x.reshape(1, -1))[0])
                    P = float(prior(x.reshape(1, -1))[0])
                    Q = float(tonp(flow.log_prob(x.reshape(1, -1)))[0])
                got = val[k]
                zero_prior = P == -math.inf
                nontriv = precond != "none" or zero_prior or math.isnan(L)
                r.case(explorer.digest(c), nontrivial=nontriv)
                b = 1.0 if beta is None else beta
                if zero_prior:
                    if cls not in IS_SMC and math.isnan(L) and math.isnan(got):
                        # plain MCMC does not promise to map NaN: a user likelihood that returns NaN outside
                        # the prior (not the documented recipe, which returns -inf) propagates; never finite
                        r.count("observation:mcmc-nan-likelihood-at-zero-prior-propagates-nan")
                        continue
                    if not (got == -math.inf):
                        r.violation(f"C05/{cls}/zero-prior-not-neginf/{precond}", {"got": got, "x": x.tolist()}, c)
                    continue
                if math.isnan(L):
                    if cls in IS_SMC and got != -math.inf:
                        r.violation(f"C05/{cls}/nan-not-mapped-to-neginf/{precond}", {"got": got}, c)
                    continue
                with np.errstate(all="ignore"):
                    base = b * (L + P) + ((1 - b) * Q if beta is not None else 0.0)
                if math.isnan(base):
                    # (1-beta)*(-inf) with beta == 1: 0 * inf is undefined -> the library maps NaN to -inf for SMC
                    if cls in IS_SMC and got != -math.inf:
                        r.violation(f"C05/{cls}/nan-not-mapped-to-neginf/{precond}", {"got": got}, c)
                    continue
                if base == -math.inf:
                    if got != -math.inf:
                        r.violation(f"C05/{cls}/neginf-target-not-neginf/{precond}", {"got": got, "L": L, "Q": Q}, c)
                    continue
                if precond == "logit" and np.max(np.abs(z)) > 8.0:
                    ld = logit_logdet(z, lo, hi)
                    r.count("analytic-logit-tail-points")
                else:
                    ld = fd_logdet(inv_np, z, h=3e-3 if precond == "flow" else 1e-5)
                want = base + ld
                r.outcomes.add(round(want, 4))
                tol = 2e-4 * (1 + abs(ld)) + 1e-6 * abs(base) + (1e-4 * (abs(base) + 1) if ns == "torch" or kernel_ns == "jax" and False else 0)
                if ns == "torch" and dtype != "float64":
                    tol += 2e-6 * (abs(base) + abs(ld) + 1) * 50
                if precond == "none" and (ns != "torch" or dtype == "float64"):
                    # identity map in double precision: nothing but rounding of a few sums separates the two values
                    ld, want = 0.0, base
                    tol = 1e-9 * (1 + abs(base))
                if precond == "flow":
                    tol += 2e-2  # float32 flow, finite differences with a coarse step
                if not (abs(got - want) <= tol):
                    r.violation(f"C05/{cls}/target-mismatch/{precond}", {"got": got, "want": want, "logJ_fd": ld, "base": base, "x": x.tolist()}, c)
    r.sample(case0)
    return r.dump()


def run_probe(arg):
    """The function handed to the kernel, probed at every invocation of a real run."""
    sampler, precond, sched = arg
    import _kernel
    import orng
    from env import resume_harness as rh

    r = Report()
    cfg = {"sampler": sampler, "N": 8, "opts": sched, "cadence": None, "n_final": 10, "precond": precond, "seed": 0}
    p = rh.problem(precond)
    from aspire import Aspire

    # simpler: drive the sampler directly so that we hold the object
    _kernel.reset(mode="prw" if sampler == "smc" else "det", scale=0.6, horizon=200)
    orng.CONFIG["factory"] = None
    orng.CONFIG["seed"] = 0
    mon = Monitor(p["like"], p["prior"], "numpy", keep_points=False)
    flow = AnalyticFlow(2, seed=1000, **p["flow"])
    a = Aspire(log_likelihood=mon.log_likelihood, log_prior=mon.log_prior, dims=2, parameters=p["parameters"],
               prior_bounds=p["bounds"], periodic_parameters=p["periodic"], flow=flow, xp=get_xp("numpy"))
    smp = a.init_sampler(sampler, preconditioning=p["preconditioning"], preconditioning_kwargs=dict(p["pk"]) if p["pk"] else None)
    if sampler == "emcee_smc":
        smp.rng = np.random.default_rng(0)
    probes = []

    def probe2(log_prob_fn, template):
        tr = smp.preconditioning_transform
        # probe at the image of two fixed interior points (valid for every transform)
        xs = np.array([[0.7, 1.9], [1.4, 2.6]])
        z = tonp(tr.forward(tr.xp.asarray(xs))[0]).astype(np.float64)
        zt = _kernel._like(template, z)
        val = tonp(log_prob_fn(zt)).astype(np.float64).reshape(-1)
        # every loop iteration has recorded its mutation: what is probed now is the enlargement to n_final_samples, whose
        # population was just resampled to temperature 1 (also when the step cap ended the loop below 1)
        final_phase = len(smp.history.beta) > 0 and len(smp.history.mcmc_acceptance) >= len(smp.history.beta)
        beta = 1.0 if final_phase else smp.history.beta[-1]

        def inv_np(zrow):
            return tonp(tr.inverse(tr.xp.asarray(zrow.reshape(1, -1)))[0]).astype(np.float64).reshape(-1)

        for k in range(len(z)):
            x = inv_np(z[k])
            L = float(p["like"](x.reshape(1, -1))[0])
            P = float(p["prior"](x.reshape(1, -1))[0])
            Q = float(tonp(flow.log_prob(x.reshape(1, -1)))[0])
            want = (1 - beta) * Q + beta * (L + P) + fd_logdet(inv_np, z[k])
            probes.append((len(smp.history.beta), beta, float(val[k]), want))

    _kernel.CONFIG["probe"] = probe2
    kw = dict(sched)
    kw["n_final_samples"] = 10
    kw["sampler_kwargs"] = {"n_steps": 2} if sampler == "smc" else {"nsteps": 2, "progress": False}
    case = {"probe": True, "sampler": sampler, "precond": precond, "sched": sched}
    try:
        smp.sample(8, **kw)
    except Exception as e:
        from env import exc_site

        r.case(explorer.digest(case))
        r.violation(f"C05/as-seen-by-kernel/run-raises/{type(e).__name__}/{exc_site(e)}", repr(e)[:200], case)
        return r.dump()
    finally:
        _kernel.CONFIG["probe"] = None
    for it, beta, got, want in probes:
        r.case(explorer.digest([case, it, got]), nontrivial=beta < 1.0)
        if not (abs(got - want) <= 2e-4 * (1 + abs(want))):
            r.violation("C05/as-seen-by-kernel/target-at-wrong-temperature-or-wrong-value",
                        {"iteration": it, "beta_recorded": beta, "got": got, "want": want}, case)
    r.count("kernel_invocations_probed", len(probes) // 2)
    r.sample(case)
    return r.dump()


def run_blackjax_probe(arg):
    """BlackJAXSMC: every (z, log-density) pair the stand-in rwmh kernel evaluates during a real run is recorded at run time
    and compared with the target at the temperature of that mutation under the preconditioning transform fitted for it."""
    precond, sched = arg
    import blackjax
    import jax
    import jax.numpy as jnp
    from aspire import Aspire
    from env.jax_env import JaxGaussFlow, JaxMonitor

    r = Report()
    case = {"blackjax_probe": True, "precond": precond, "sched": sched}
    mon = JaxMonitor([-5.0, -4.0], [5.0, 6.0], [1.0, 2.0], [0.7, 0.9])
    flow = JaxGaussFlow(2, [0.5, 1.0], [2.5, 2.2], seed=0)
    pk, pre = None, "none"
    if precond == "logit":
        pre, pk = "default", {"bounded_to_unbounded": True, "bounded_transform": "logit"}
    elif precond == "affine":
        pre, pk = "default", {"affine_transform": True}
    elif precond == "logit+affine":
        pre, pk = "default", {"bounded_to_unbounded": True, "bounded_transform": "logit", "affine_transform": True}
    a = Aspire(log_likelihood=mon.log_likelihood, log_prior=mon.log_prior, dims=2, parameters=["a", "b"],
               prior_bounds={"a": [-5.0, 5.0], "b": [-4.0, 6.0]}, flow=flow, xp=jnp)
    smp = a.init_sampler("blackjax_smc", preconditioning=pre, preconditioning_kwargs=pk, rng=np.random.default_rng(0))
    a._sampler = smp
    recorded = []
    checked = []
    blackjax.RECORD["fn"] = lambda z, ld: recorded.append((np.asarray(z, dtype=np.float64).copy(), float(ld)))
    orig_mutate = smp.mutate

    def mutate(particles, beta, n_steps=None):
        del recorded[:]
        out = orig_mutate(particles, beta, n_steps=n_steps) if n_steps is not None else orig_mutate(particles, beta)
        jax.effects_barrier()
        tr = smp.preconditioning_transform
        pts = list(recorded)
        del recorded[:]
        if not pts:
            return out
        Z = np.stack([p[0] for p in pts])
        got = np.array([p[1] for p in pts])
        x, lj = tr.inverse(tr.xp.asarray(Z))
        x = np.asarray(x, dtype=np.float64)
        lj = np.asarray(lj, dtype=np.float64).reshape(-1)
        with np.errstate(all="ignore"):
            L, P = mon.like_np(x), mon.prior_np(x)
            Q = np.asarray(flow.log_prob(x), dtype=np.float64)
            want = (1 - beta) * Q + beta * (L + P) + lj
        checked.append((float(beta), Z, got, want))
        return out

    smp.mutate = mutate
    try:
        smp.sample(8, rng_key=jax.random.key(0), sampler_kwargs={"algorithm": "rwmh", "n_steps": 2, "sigma": 0.3}, n_final_samples=10, **sched)
    except Exception as e:
        from env import exc_site

        r.case(explorer.digest(case))
        r.violation(f"C05/blackjax_smc/as-seen-by-kernel/run-raises/{type(e).__name__}/{exc_site(e)}", repr(e)[:200], case)
        return r.dump()
    finally:
        blackjax.RECORD["fn"] = None
    if len(checked) < 2:
        raise explorer.HarnessError("blackjax probe recorded fewer than two mutations")
    for i, (beta, Z, got, want) in enumerate(checked):
        for k in range(len(got)):
            r.case(explorer.digest([case, i, k]), nontrivial=i > 0)
            w, g = want[k], got[k]
            ok = (g == w) or (np.isnan(w) and g == -np.inf) or (np.isfinite(w) and np.isfinite(g) and abs(g - w) <= 1e-6 * (1 + abs(w)))
            if not ok and not (w == -np.inf and g == -np.inf):
                r.violation(f"C05/blackjax_smc/as-seen-by-kernel/target-mismatch/{precond}",
                            {"mutation": i, "beta": beta, "z": Z[k].tolist(), "got": float(g), "want": float(w)}, case)
                break
    r.count("blackjax_kernel_evaluations_checked", sum(len(c[2]) for c in checked))
    r.sample(case)
    return r.dump()


def dispatch(job):
    return globals()[job[0]](job[1])


def configs(tier):
    out = []
    for cls in SAMPLERS:
        nss = {"smc": ("numpy", "torch", "jax"), "emcee_smc": ("numpy", "torch", "jax"), "blackjax_smc": ("jax",),
               "emcee": ("numpy", "jax"), "minipcn": ("numpy", "torch")}[cls]
        for ns in nss:
            for precond in ("none", "periodic", "logit", "probit", "affine", "logit+affine", "flow"):
                if precond == "flow" and (ns != "numpy" or cls not in ("smc", "emcee") and tier == "quick"):
                    continue
                for d in (1, 2):
                    if precond == "periodic" and d == 1:
                        pass
                    for menu in ("smooth", "nan-outside", "neginf-halfline"):
                        for window in (False, True):
                            if window and menu != "smooth":
                                continue
                            if tier == "quick":
                                if ns != "numpy" and (menu != "smooth" or d == 1):
                                    continue
                                if cls in ("emcee", "minipcn") and (d == 1 or menu == "neginf-halfline"):
                                    continue
                            pops = (0, 1, 2) if ("affine" in precond and tier == "thorough") else (0,) if "affine" not in precond else (0, 2)
                            for pop in pops:
                                out.append(("run_config", (cls, precond, ns, d, menu, window, pop, tier)))
    # torch with a requested float64 (its default width is float32): the target is accurate to double precision
    for cls in SAMPLERS:
        if cls == "blackjax_smc":
            continue
        for precond in ("none", "logit"):
            out.append(("run_config", (cls, precond, "torch", 2, "smooth", False, 0, tier, "float64")))
    for sampler in ("smc", "emcee_smc"):
        for precond in ("none", "periodic", "logit_affine", "probit"):
            for sched in ({"adaptive": True, "target_efficiency": 0.8}, {"adaptive": False, "n_steps": 3}):
                out.append(("run_probe", (sampler, precond, sched)))
    # a run that the step cap ends below temperature 1, followed by the enlargement
    for precond in ("none", "logit_affine"):
        out.append(("run_probe", ("smc", precond, {"adaptive": False, "n_steps": 3, "max_n_steps": 2})))
        out.append(("run_probe", ("smc", precond, {"adaptive": True, "target_efficiency": 0.9, "min_step": 0.1, "max_n_steps": 2})))
    for precond in ("none", "logit", "affine", "logit+affine"):
        for sched in ({"adaptive": True, "target_efficiency": 0.8}, {"adaptive": False, "n_steps": 3}):
            out.append(("run_blackjax_probe", (precond, sched)))
    return out


def run(tier, seed, workers):
    rep = Report()
    jobs = configs(tier)
    jobs.sort(key=lambda j: 0 if (j[0] == "run_config" and j[1][1] == "flow") else 1)
    for d in pmap("checks.c05", "dispatch", jobs, workers, chunksize=1):
        rep.merge(d)
    rep.count("configs", len(jobs))
    return rep


def replay(case):
    r = Report()
    if case.get("blackjax_probe"):
        r.merge(run_blackjax_probe((case["precond"], case["sched"])))
    elif case.get("probe"):
        r.merge(run_probe((case["sampler"], case["precond"], case["sched"])))
    else:
        r.merge(run_config((case["sampler"], case["precond"], case["ns"], case["d"], case["menu"], case["window"], case["pop"], "quick", case.get("dtype"))))
    return r
