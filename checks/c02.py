"""C02 Weights, evidence and ESS are exact functionals of the per-sample log-densities.

Small-scope exhaustive enumeration over log-density vectors built from a
10-value alphabet (ties, -inf, magnitudes far outside exp()'s range), every
permutation, constant shifts, three namespaces and two float widths, compared
with extended-precision definitions; rejection sampling with every uniform
draw from a 4-point-per-row menu straddling the acceptance boundary."""
import itertools
import math

import numpy as np

from env import get_dtype, get_xp, tonp
from env.choice_rng import ChoiceRNG
from mc import explorer
from mc.par import pmap
from mc.report import Report
from oracles import ref

LEVEL = "exploration"
RULE = ("all multisets of log-weights of size N in {2,3,4} over {0,-1,ln2,-50,700,-745,1e5,-1e5,1e5-3,-inf} (never all -inf, "
        "never +-1e5 mixed with each other beyond what one float width can represent is still included), every distinct "
        "permutation, split over (logL, log pi, log q) in 3 ways, x {numpy,torch,jax} x {float32,float64} (jax/torch reduced in "
        "quick), constant shifts {-1e5,-1,3,1e5} of log L; rejection sampling: for N<=3 every combination of per-row uniforms "
        "from {r/2, r*(1-m), r*(1+m), min(1,2r)}; two independently weighted sets concatenated at log-likelihood offsets {0, 1e3, 5e4, +-1e5}. non-trivial = weight vector not constant; distinct = distinct (vector, split, "
        "ns, dtype, shift)")
ASSUMPTIONS = [
    "finite value alphabet (checks/c02.py); tolerances are rounding-aware for the dtype under test",
    "evidence / weights in linear space may overflow legitimately; only log-evidence, its relative error and ESS are required finite",
]

LN2 = math.log(2)
ALPHABET = [0.0, -1.0, LN2, -50.0, 700.0, -745.0, 1e5, -1e5, 1e5 - 3, -math.inf]
SPLITS = ["likelihood", "even", "proposal"]
SHIFTS = [-1e5, -1.0, 3.0, 1e5]
EPS = {"float64": 2.3e-16, "float32": 1.2e-7}


def split_fields(lw, how):
    lw = np.asarray(lw, dtype=np.float64)
    n = len(lw)
    i = np.arange(n, dtype=np.float64)
    if how == "likelihood":
        logpi = -0.5 - i
        logq = 0.25 * i
        logl = lw - logpi + logq
    elif how == "even":
        logq = np.where(np.isfinite(lw), -lw / 3.0, 0.0)
        logpi = np.where(np.isfinite(lw), lw / 3.0, 1.0)
        logl = np.where(np.isfinite(lw), lw - logpi + logq, -np.inf)
    else:  # all the weight structure sits in log q
        logl = 1.0 + 0.5 * i
        logpi = -2.0 * np.ones(n)
        with np.errstate(invalid="ignore"):
            logq = np.where(np.isfinite(lw), logl + logpi - lw, np.inf)
    return logl, logpi, logq


def make(lw, how, ns, dt, shift=0.0):
    from aspire.samples import Samples

    xp = get_xp(ns)
    logl, logpi, logq = split_fields(lw, how)
    n = len(lw)
    x = np.stack([np.arange(n, dtype=np.float64), 10.0 + np.arange(n)], axis=1)
    return Samples(x=xp.asarray(x), log_likelihood=xp.asarray(logl + shift), log_prior=xp.asarray(logpi),
                   log_q=xp.asarray(logq), xp=xp, dtype=get_dtype(ns, dt))


def f(v):
    return float(np.asarray(tonp(v), dtype=np.float64).reshape(-1)[0]) if np.ndim(tonp(v)) else float(tonp(v))


def check_one(r, lw, how, ns, dt, shift, case, base=None):
    """Checks one sample set; returns (log_evidence, ess) as floats or None."""
    eps = EPS[dt]
    if how == "proposal" and any(math.isinf(v) for v in lw):
        return None  # would need log q = +inf, not a proposal density
    try:
        s = make(lw, how, ns, dt, shift)
    except Exception as e:
        r.violation(f"C02/construct-raises/{type(e).__name__}", repr(e)[:200], case)
        return None
    out = verify(r, s, lw, ns, dt, case, "")
    if out is None:
        return None
    # a selection that leaves out the heaviest row: every functional of the piece is that of the piece's own weights
    fin_idx = [i for i, v in enumerate(lw) if math.isfinite(v)]
    if len(lw) >= 3 and len(fin_idx) >= 3 and case.get("shift", 0.0) == 0.0:
        try:
            imax = max(fin_idx, key=lambda i: lw[i])
            keep = np.array([i != imax for i in range(len(lw))])
            xpk = get_xp(ns)
            piece = s[xpk.asarray(keep)]
            _ = s.scaled_weights  # the parent's own value has been asked for before
            r.case(explorer.digest(dict(case, piece="without-heaviest")), nontrivial=True)
            verify(r, piece, None, ns, dt, dict(case, piece="without-heaviest"), "/piece-without-heaviest-row")
        except Exception as e:
            r.violation(f"C02/piece-raises/{type(e).__name__}", repr(e)[:200], case)
    # non-initial state: the same object re-weighted in place (a log-density vector replaced, weights recomputed)
    if case.get("shift", 0.0) == 0.0 and how != "proposal" and all(math.isfinite(v) for v in lw):
        try:
            xp = get_xp(ns)
            s2 = make(lw, how, ns, dt, 0.0)
            bump = xp.asarray(np.linspace(0.5, 2.0, len(lw)), dtype=get_dtype(ns, dt))
            s2.log_likelihood = s2.log_likelihood + bump
            s2.compute_weights()
            r.case(explorer.digest(dict(case, reweighted_in_place=True)), nontrivial=True, n=2)
            verify(r, s2, lw, ns, dt, dict(case, reweighted_in_place=True), "/after-in-place-reweighting")
            s2.log_q = s2.log_q - 1.25
            s2.compute_weights()
            verify(r, s2, lw, ns, dt, dict(case, reweighted_in_place=2), "/after-in-place-reweighting")
        except Exception as e:
            r.violation(f"C02/in-place-reweighting-raises/{type(e).__name__}", repr(e)[:200], case)
    return out


def verify(r, s, lw, ns, dt, case, tag):
    """All functionals of one sample set against the mpmath definitions evaluated on its stored fields."""
    eps = EPS[dt]
    L = tonp(s.log_likelihood).astype(np.float64)
    P = tonp(s.log_prior).astype(np.float64)
    Q = tonp(s.log_q).astype(np.float64)
    lws = tonp(s.log_w).astype(np.float64)
    n = len(lws)
    with np.errstate(invalid="ignore"):
        want = L + P - Q
    mag = np.abs(L) + np.abs(P) + np.abs(Q)
    for i in range(n):
        if math.isinf(want[i]):
            ok = lws[i] == want[i]
        else:
            ok = abs(lws[i] - want[i]) <= 4 * eps * mag[i] + 1e-300
        if not ok:
            r.violation("C02/log_w-elementwise" + tag, {"i": i, "got": lws[i], "want": want[i]}, case)
            return None
    fin = lws[np.isfinite(lws)]
    if len(fin) == 0:
        return None
    mx = float(fin.max())
    scale = max(abs(mx), 1.0)
    # log evidence = log mean w  (reference evaluated on the stored log-weights)
    le_ref = ref.log_mean_exp(lws)
    le = f(s.log_evidence)
    piece = tag.startswith("/piece")  # a selection carries its parent's evidence (C16): only the per-set functionals are its own
    if not piece and not ref.close(le, le_ref, 0.0, 8 * eps * (scale + 10)):
        r.violation("C02/log_evidence" + tag, {"got": le, "ref": float(le_ref)}, case)
    ess_ref = float(ref.ess(lws))
    r.outcomes.add((round(float(le_ref), 6), round(ess_ref, 6)))
    spread = float(mx - fin.min()) if len(fin) > 1 else 0.0
    tol_ess = 16 * eps * (1 + scale) * n
    ess = f(s.effective_sample_size)
    if not math.isfinite(ess) or abs(ess - ess_ref) > tol_ess * max(1.0, ess_ref):
        r.violation("C02/ess" + tag, {"got": ess, "ref": ess_ref}, case)
    if not (1 - 1e-6 <= ess <= n + 1e-6 * n):
        r.violation("C02/ess-range" + tag, {"got": ess, "n": n}, case)
    eff = f(s.efficiency)
    if abs(eff * n - ess) > 1e-6 * n:
        r.violation("C02/efficiency" + tag, {"eff": eff, "ess": ess}, case)
    sw = tonp(s.scaled_weights).astype(np.float64)
    sw_ref = [float(ref.mp.exp(ref.mpf(v) - ref.mpf(mx))) if math.isfinite(v) else 0.0 for v in lws]
    for i in range(n):
        if abs(sw[i] - sw_ref[i]) > 8 * eps * (1 + abs(lws[i] - mx if math.isfinite(lws[i]) else 0)) * max(sw_ref[i], 1e-30) + 1e-38:
            r.violation("C02/scaled_weights" + tag, {"i": i, "got": sw[i], "ref": sw_ref[i]}, case)
            break
    # relative error of the evidence: finite and accurate even far outside exp()'s range
    lee = f(s.log_evidence_error)
    lee_ref = float(ref.rel_evidence_error(lws))
    big = "outside-exp-range" if abs(mx) > 700 or (fin.min() < -700) else "in-range"
    if piece:
        pass
    elif not math.isfinite(lee):
        r.violation(f"C02/log_evidence_error/not-finite/{big}" + tag, {"got": lee, "ref": lee_ref, "log_w": lws.tolist()}, case)
    elif abs(lee - lee_ref) > 64 * eps * (1 + scale) * max(1.0, lee_ref) + (1e-6 if dt == "float32" else 1e-12):
        r.violation(f"C02/log_evidence_error/inaccurate/{big}" + tag, {"got": lee, "ref": lee_ref, "log_w": lws.tolist()}, case)
    # helpers
    from aspire.utils import effective_sample_size, logsumexp

    try:
        e2 = f(effective_sample_size(s.log_w))
        if abs(e2 - ess_ref) > tol_ess * max(1.0, ess_ref):
            r.violation("C02/utils.effective_sample_size" + tag, {"got": e2, "ref": ess_ref}, case)
        l2 = f(logsumexp(s.log_w))
        if not ref.close(l2, ref.logsumexp(lws), 0.0, 8 * eps * (scale + 10)):
            r.violation("C02/utils.logsumexp" + tag, {"got": l2, "ref": float(ref.logsumexp(lws))}, case)
    except Exception as e:
        r.violation(f"C02/utils-raises/{type(e).__name__}" + tag, repr(e)[:200], case)
    return le, ess, s


def rejection(r, s, lw, ns, dt, case):
    """Every combination of per-row uniforms from the 4-point menu."""
    lws = tonp(s.log_w).astype(np.float64)
    n = len(lws)
    mx = lws[np.isfinite(lws)].max()
    m = 1e-7 if dt == "float64" else 1e-2
    menus = []
    for i in range(n):
        if not math.isfinite(lws[i]):
            menus.append([(0.5, False), (1e-300, False)])
            continue
        lr = lws[i] - mx  # log r_i <= 0
        if dt == "float32" and lr < -80:
            menus.append([(0.5, False)])
            continue
        ri = math.exp(lr) if lr > -700 else 0.0
        opts = []
        if ri > 0:
            opts.append((ri / 2, True))
            opts.append((ri * math.exp(-m), True))
            if ri * math.exp(m) <= 1.0:
                opts.append((ri * math.exp(m), False))
            if ri < 0.5:
                opts.append((min(1.0, 2 * ri), False))
        if lr == 0.0:
            opts = [(0.5, True), (1 - 1e-9 if dt == "float64" else 0.99, True)]
        if not opts:
            opts = [(0.5, False)]
        menus.append(opts)
    before = {f: tonp(getattr(s, f)).copy() for f in ("log_w", "weights", "log_likelihood", "log_prior", "log_q", "x")}
    ev_before = f(s.log_evidence)
    for combo in itertools.product(*menus):
        u = np.array([c[0] for c in combo])
        keep = np.array([c[1] for c in combo])

        class R:
            def uniform(self, size=None, **kw):
                return u.copy()

        c2 = dict(case, uniforms=u.tolist())
        try:
            out = s.rejection_sample(rng=R())
        except Exception as e:
            if keep.sum() == 0:
                # an empty selection cannot be represented as a sample set in every namespace
                r.case(explorer.digest(c2), nontrivial=False)
                continue
            r.violation(f"C02/rejection-raises/{type(e).__name__}", repr(e)[:200], c2)
            continue
        r.case(explorer.digest(c2), nontrivial=len(set(lw)) > 1)
        gx = tonp(out.x)
        wx = tonp(s.x)[keep]
        if gx.shape != wx.shape or not np.array_equal(gx, wx):
            r.violation("C02/rejection/kept-set", {"kept_x": gx.tolist(), "want_x": wx.tolist(), "u": u.tolist(),
                                                    "r": [float(np.exp(v - mx)) for v in lws]}, c2)
            continue
        for fld in ("log_likelihood", "log_prior"):
            g = tonp(getattr(out, fld))
            w = tonp(getattr(s, fld))[keep]
            if not np.array_equal(g, w, equal_nan=True):
                r.violation(f"C02/rejection/row-alignment/{fld}", {"got": g.tolist(), "want": w.tolist()}, c2)
    unchanged_after_rejection(r, s, before, ev_before, case)


def unchanged_after_rejection(r, s, before, ev_before, case):
    """Rejection sampling must not alter the set it samples from."""
    for fld, old in before.items():
        now = tonp(getattr(s, fld))
        if now.shape != old.shape or not np.array_equal(now, old, equal_nan=True):
            r.violation(f"C02/rejection/source-set-modified/{fld}", {"before": old.tolist(), "after": now.tolist()}, case)
            return
    if f(s.log_evidence) != ev_before and not (math.isnan(ev_before) and math.isnan(f(s.log_evidence))):
        r.violation("C02/rejection/source-set-modified/log_evidence", None, case)


def run_chunk(arg):
    vectors, ns, dt, tier = arg
    r = Report()
    eps = EPS[dt]
    for lw in vectors:
        n = len(lw)
        perms = sorted(set(itertools.permutations(lw)))
        hows = SPLITS if ns == "numpy" or tier == "thorough" else ["likelihood"]
        for how in hows:
            base = None
            for pi, perm in enumerate(perms):
                if ns != "numpy" and tier == "quick" and pi > 0 and n == 4:
                    break
                if ns == "jax" and tier == "quick" and pi > 1:
                    break
                case = {"log_w": list(perm), "split": how, "ns": ns, "dtype": dt, "shift": 0.0}
                res = check_one(r, perm, how, ns, dt, 0.0, case)
                r.case(explorer.digest(case), nontrivial=len(set(lw)) > 1)
                if res is None:
                    continue
                le, ess, s = res
                fin = [v for v in lw if math.isfinite(v)]
                scale = max(abs(max(fin)), 1.0)
                if base is None:
                    base = (le, ess)
                else:
                    if abs(le - base[0]) > 16 * eps * (scale + 10) or abs(ess - base[1]) > 32 * eps * (1 + scale) * n * max(1.0, ess):
                        r.violation("C02/permutation-invariance", {"perm": list(perm), "le": le, "ess": ess, "base": base}, case)
                if pi == 0 and n <= 3 and how == "likelihood":
                    rejection(r, s, perm, ns, dt, case)
                if pi == 0 and (ns == "numpy" or tier == "thorough" or n <= 2):
                    for c in SHIFTS:
                        if dt == "float32" and abs(c) >= 1e5 and any(abs(v) >= 1e5 for v in fin):
                            pass
                        c2 = dict(case, shift=c)
                        res2 = check_one(r, perm, how, ns, dt, c, c2)
                        r.case(explorer.digest(c2), nontrivial=len(set(lw)) > 1)
                        if res2 is None:
                            continue
                        # shift law, evaluated on what was stored: log L' - log L is the realised shift
                        L0 = tonp(s.log_likelihood).astype(np.float64)
                        L1 = tonp(res2[2].log_likelihood).astype(np.float64)
                        with np.errstate(invalid="ignore"):
                            d = (L1 - L0)[np.isfinite(L0)]
                        if len(d) and np.all(d == d[0]):
                            big = max(scale, abs(c), 1.0)
                            if abs(res2[0] - (le + d[0])) > 32 * eps * (big + 10):
                                r.violation("C02/shift-law/log_evidence", {"shift": c, "got": res2[0], "want": le + d[0]}, c2)
                            if abs(res2[1] - ess) > 64 * eps * (1 + big) * n * max(1.0, ess):
                                r.violation("C02/shift-law/ess", {"shift": c, "got": res2[1], "want": ess}, c2)
    if vectors:
        r.sample({"log_w": list(vectors[0]), "ns": ns, "dtype": dt})
    return r.dump()


def run_pooled(arg):
    """Two independently weighted sets put together: the pooled set's functionals are those of its own weights (nothing
    is taken over from a piece), at every magnitude of the log-likelihood."""
    from aspire.samples import Samples

    ns, dt = arg
    r = Report()
    pieces = [((0.0, -1.0, -2.5), (-0.3, -0.8)), ((0.0, -0.1), (-0.05, -3.0, -0.2))]
    for (a, b), off in itertools.product(pieces, (0.0, 1e3, 5e4, 1e5, -1e5)):
        if dt == "float32" and abs(off) >= 5e4:
            continue  # float32 cannot resolve O(1) differences at this magnitude
        case = {"pooled": True, "ns": ns, "dtype": dt, "a": list(a), "b": list(b), "offset": off}
        r.case(explorer.digest(case), nontrivial=True)
        try:
            s1 = make(tuple(v for v in a), "likelihood", ns, dt, off)
            s2 = make(tuple(v for v in b), "likelihood", ns, dt, off)
            pooled = Samples.concatenate([s1, s2])
        except Exception as e:
            r.violation(f"C02/pooled/raises/{type(e).__name__}", repr(e)[:200], case)
            continue
        verify(r, pooled, None, ns, dt, case, "/pooled")
    r.sample({"pooled": True, "ns": ns, "dtype": dt})
    return r.dump()


def dispatch(job):
    return globals()[job[0]](job[1])


def vectors(n):
    out = []
    for c in itertools.combinations_with_replacement(ALPHABET, n):
        if all(math.isinf(v) for v in c):
            continue
        out.append(c)
    return out


def run(tier, seed, workers):
    rep = Report()
    jobs = []
    for ns in ("numpy", "torch", "jax"):
        for dt in ("float64", "float32"):
            for n in (2, 3, 4):
                vs = vectors(n)
                if tier == "quick":
                    if ns == "torch" and n == 4:
                        vs = vs[::5]
                    if ns == "jax":
                        vs = vs[::3] if n <= 3 else vs[::40]
                k = 12 if ns == "numpy" else 6
                for i in range(k):
                    chunk = vs[i::k]
                    if chunk:
                        jobs.append((chunk, ns, dt, tier))
    jobs.sort(key=lambda j: -len(j[0]) * (4 if j[1] == "jax" else 1))
    for d in pmap("checks.c02", "run_chunk", jobs, workers):
        rep.merge(d)
    for d in pmap("checks.c02", "run_pooled", [(ns, dt) for ns in ("numpy", "torch", "jax") for dt in ("float64", "float32")], workers):
        rep.merge(d)
    return rep


def replay(case):
    r = Report()
    if case.get("pooled"):
        r.merge(run_pooled((case["ns"], case["dtype"])))
        return r
    lw = [(-math.inf if v == "-inf" else v) for v in case["log_w"]]
    res = check_one(r, tuple(lw), case["split"], case["ns"], case["dtype"], case.get("shift", 0.0), case)
    r.case("replay")
    if res is not None and "uniforms" in case:
        rejection(r, res[2], tuple(lw), case["ns"], case["dtype"], case)
    return r
