"""C13 Saved samples, histories, transforms, flows and configuration reload unchanged.

Exhaustive enumeration over object menus: every sample class x namespace x
dtype x optional-field subset x layout x size; histories; every transform class
in fitted/unfitted state; both flow back-ends with default / non-default
constructor arguments; Aspire configurations through save_config + save_flow +
resume_from_file; the recursive HDF5 encoder on a value menu."""
import itertools
import os
import shutil
import tempfile

import h5py
import numpy as np

from env import get_dtype, get_xp, tonp
from mc import explorer
from mc.par import pmap
from mc.report import Report

LEVEL = "exploration"
RULE = ("samples: {BaseSamples,Samples,SMCSamples} x {numpy,torch,jax} x {float32,float64} x 8 field subsets (+beta/evidence; weighted sets also with an evidence that is not the one derivable from their weights) x "
        "{flat,nested} x N in {1,3} x parameter names stored in / not in lexicographic order; histories: FlowHistory, SMCHistory with 0..3 stored populations and populated/empty series; "
        "transforms: every class (Identity, Periodic, Logit, Probit, Affine, Composite x 6 option combinations, FlowTransform) "
        "fitted and unfitted x namespace; flows: ZukoFlow / FlowJax x {default, non-default kwargs} x {float32,float64} x "
        "{untrained, trained} x dims {2, 3, 4} x {first save, second save of the same object, save of the reloaded object}, and a zuko flow built without any dtype under torch.set_default_dtype(float64) and reloaded under the stock default; Aspire configs: product over {parameters, prior_bounds, periodic, flow kwargs, xp, dtype, eps, "
        "bounded_transform} menus via save_config+save_flow -> resume_from_file, and two instances with different settings writing into the same file one after the other; value menu for recursively_save_to_h5_file. "
        "Oracle: observational equality after reload. non-trivial = object with at least one optional field / fitted state / "
        "non-default setting")
ASSUMPTIONS = [
    "finite menus (checks/c13.py); maps and densities compared on fixed probe grids",
    "settings compared up to container type (list vs tuple vs array of the same values)",
]

NS = ("numpy", "torch", "jax")


def eq_arr(a, b, tol=0.0):
    if a is None or b is None:
        return a is None and b is None
    a, b = tonp(a).astype(np.float64), tonp(b).astype(np.float64)
    return a.shape == b.shape and (np.array_equal(a, b, equal_nan=True) if tol == 0 else np.allclose(a, b, rtol=tol, atol=tol, equal_nan=True))


def run_samples(arg):
    cls, ns = arg
    from aspire import samples as S

    r = Report()
    tmp = tempfile.mkdtemp(prefix="c13s_")
    xp = get_xp(ns)
    C = getattr(S, cls)
    try:
        for dt, flags, layout, n, names, given in itertools.product(("float32", "float64"), itertools.product((0, 1), repeat=3), ("flat", "nested"), (1, 3),
                                                                   (["a", "b"], ["b", "a"]), (False, True)):
            if given and not (cls == "Samples" and all(flags)):
                continue  # 'given': a weighted set that carries an evidence other than the one derivable from its own weights (slice, concatenation, explicit argument)
            case = {"part": "samples", "class": cls, "ns": ns, "dtype": dt, "fields": list(flags), "layout": layout, "n": n, "names": names,
                    "evidence": "given" if given else "default"}
            i = np.arange(n, dtype=np.float64)
            kw = {}
            if flags[0]:
                kw["log_likelihood"] = xp.asarray(-0.7 - 0.3 * i)
            if flags[1]:
                kw["log_prior"] = xp.asarray(-1.1 + 0.01 * i)
            if flags[2]:
                kw["log_q"] = xp.asarray(-0.9 - 0.2 * i)
            if cls == "SMCSamples":
                kw.update(beta=0.25, log_evidence=-2.5, log_evidence_error=0.5)
            if cls == "Samples" and (given or not all(flags)):
                kw.update(log_evidence=-2.5, log_evidence_error=0.5)
            r.case(explorer.digest(case), nontrivial=any(flags) or cls != "BaseSamples")
            path = os.path.join(tmp, "s.h5")
            try:
                obj = C(x=xp.asarray(np.stack([0.1 * (i + 1), 1 / 3 + i], axis=1)), xp=xp, dtype=get_dtype(ns, dt), parameters=list(names), **kw)
                with h5py.File(path, "w") as f:
                    obj.save(f, path="samples", flat=layout == "flat")
                with h5py.File(path, "r") as f:
                    back = C.load(f, path="samples")
            except Exception as e:
                from env import exc_site

                r.violation(f"C13/samples/{cls}/raises/{type(e).__name__}/{exc_site(e)}/{layout}", repr(e)[:200], case)
                continue
            sig = f"C13/samples/{cls}"
            if type(back).__name__ != cls:
                r.violation(f"{sig}/class", type(back).__name__, case)
            if ns not in getattr(back.xp, "__name__", ""):
                r.violation(f"{sig}/namespace/{ns}", getattr(back.xp, "__name__", ""), case)
            if str(tonp(back.x).dtype) != dt:
                r.violation(f"{sig}/dtype/{ns}/{dt}->{tonp(back.x).dtype}", None, case)
            if list(back.parameters) != list(names):
                r.violation(f"{sig}/parameters", back.parameters, case)
            for fld in ("x", "log_likelihood", "log_prior", "log_q"):
                if not eq_arr(getattr(obj, fld), getattr(back, fld)):
                    a, b = getattr(obj, fld), getattr(back, fld)
                    kind = "lost" if b is None else "appeared" if a is None else "changed"
                    r.violation(f"{sig}/field-{kind}/{fld}", None, case)
            for att in ("beta", "log_evidence", "log_evidence_error"):
                if hasattr(obj, att):
                    a, b = getattr(obj, att), getattr(back, att)
                    if (a is None) != (b is None) or (a is not None and abs(float(tonp(a)) - float(tonp(b))) > 1e-6):
                        r.violation(f"{sig}/attribute/{att}", {"saved": None if a is None else float(tonp(a)), "loaded": None if b is None else float(tonp(b))}, case)
            r.outcomes.add(explorer.digest([cls, ns, dt, flags]))
        r.sample({"part": "samples", "class": cls, "ns": ns, "dtype": "float32", "fields": [1, 1, 0], "layout": "nested", "n": 3})
    finally:
        shutil.rmtree(tmp, ignore_errors=True)
    return r.dump()


def run_histories(_):
    from aspire.history import FlowHistory, SMCHistory
    from aspire.samples import SMCSamples

    r = Report()
    tmp = tempfile.mkdtemp(prefix="c13h_")
    xp = get_xp("numpy")
    try:
        for ntrain in (0, 1, 4):
            case = {"part": "history", "class": "FlowHistory", "n": ntrain}
            r.case(explorer.digest(case), nontrivial=ntrain > 0)
            h = FlowHistory(training_loss=[0.5 - 0.1 * i for i in range(ntrain)], validation_loss=[0.6 - 0.1 * i for i in range(ntrain)])
            path = os.path.join(tmp, "h.h5")
            try:
                with h5py.File(path, "w") as f:
                    h.save(f)
                with h5py.File(path, "r") as f:
                    b = FlowHistory.load(f, "flow_history")
                if list(np.asarray(b.training_loss, dtype=float)) != list(h.training_loss) or list(np.asarray(b.validation_loss, dtype=float)) != list(h.validation_loss):
                    r.violation("C13/history/FlowHistory/series-changed", {"saved": h.training_loss, "loaded": np.asarray(b.training_loss).tolist()}, case)
            except Exception as e:
                from env import exc_site

                r.violation(f"C13/history/FlowHistory/raises/{type(e).__name__}/{exc_site(e)}/n={ntrain}", repr(e)[:200], case)
        # 12 populations: more than 10 members, so that lexicographic vs numeric member order matters
        for npop, nser in itertools.product((0, 1, 3, 12), (0, 2)):
            case = {"part": "history", "class": "SMCHistory", "populations": npop, "series_len": nser}
            r.case(explorer.digest(case), nontrivial=npop > 0 or nser > 0)
            pops = [SMCSamples(x=np.array([[0.1 * k, 1.0], [0.2, 2.0 + k]]), log_likelihood=np.array([-1.0, -2.0 - k]),
                               log_prior=np.array([-0.5, -0.5]), log_q=np.array([-0.1 * k, -0.2]), beta=k / 16.0, xp=xp, parameters=["a", "b"])
                    for k in range(npop)]
            h = SMCHistory(log_norm_ratio=[-0.5 * i for i in range(nser)], log_norm_ratio_var=[0.01 * (i + 1) for i in range(nser)],
                           beta=[0.5 * (i + 1) for i in range(nser)], ess=[3.0 + i for i in range(nser)], ess_target=[2.0 + i for i in range(nser)],
                           eff_target=[0.5] * nser, mcmc_autocorr=[], mcmc_acceptance=[0.3] * nser, sample_history=pops)
            path = os.path.join(tmp, "smc.h5")
            try:
                with h5py.File(path, "w") as f:
                    h.save(f)
                with h5py.File(path, "r") as f:
                    b = SMCHistory.load(f)
            except Exception as e:
                from env import exc_site

                r.violation(f"C13/history/SMCHistory/raises/{type(e).__name__}/{exc_site(e)}/populations={npop},series={nser}", repr(e)[:200], case)
                continue
            for s in ("log_norm_ratio", "log_norm_ratio_var", "beta", "ess", "ess_target", "eff_target", "mcmc_acceptance", "mcmc_autocorr"):
                a_, b_ = list(getattr(h, s)), getattr(b, s)
                b_ = [] if b_ is None else list(np.asarray(b_, dtype=float).reshape(-1)) if not isinstance(b_, dict) else b_
                if a_ != b_:
                    kind = "empty-series-not-restored-as-empty" if not a_ else "series-changed"
                    r.violation(f"C13/history/SMCHistory/{kind}/{s}", {"saved": a_, "loaded": repr(getattr(b, s))[:80]}, case)
            if len(b.sample_history) != npop:
                r.violation("C13/history/SMCHistory/populations-count", {"saved": npop, "loaded": len(b.sample_history)}, case)
            else:
                for k, (p, q) in enumerate(zip(pops, b.sample_history)):
                    for fld in ("x", "log_likelihood", "log_prior", "log_q"):
                        if not eq_arr(getattr(p, fld), getattr(q, fld)):
                            r.violation(f"C13/history/SMCHistory/population-field/{fld}", {"k": k}, case)
                    if q.beta is None or abs(float(q.beta) - float(p.beta)) > 1e-12:
                        r.violation("C13/history/SMCHistory/population-beta", {"k": k, "saved": p.beta, "loaded": q.beta}, case)
        r.sample({"part": "history", "class": "SMCHistory", "populations": 3, "series_len": 2})
    finally:
        shutil.rmtree(tmp, ignore_errors=True)
    return r.dump()


def run_transforms(ns):
    from aspire import transforms as T

    r = Report()
    tmp = tempfile.mkdtemp(prefix="c13t_")
    xp = get_xp(ns)
    lo, hi = np.array([0.0, -5.0]), np.array([1.0, 20.0])
    # names whose alphabetical order differs from their position (HDF5 returns group members sorted by name)
    PA, PB = "zeta", "alpha"
    pb = {PA: [0.0, 1.0], PB: [-5.0, 20.0]}  # insertion order = parameter order; a reload sees them sorted by name
    probe = lo + (hi - lo) * np.array([[0.1, 0.9], [0.5, 0.5], [0.8, 0.2], [0.3, 0.6]])
    specs = [("IdentityTransform", lambda dt: T.IdentityTransform(xp=xp, dtype=dt)),
             ("PeriodicTransform", lambda dt: T.PeriodicTransform(lower=lo, upper=hi, xp=xp, dtype=dt)),
             ("LogitTransform", lambda dt: T.LogitTransform(lower=lo, upper=hi, xp=xp, dtype=dt, eps=1e-5)),
             ("ProbitTransform", lambda dt: T.ProbitTransform(lower=lo, upper=hi, xp=xp, dtype=dt, eps=1e-5)),
             ("AffineTransform", lambda dt: T.AffineTransform(xp=xp, dtype=dt))]
    for per, b2u, bt, aff in [([], True, "logit", True), ([PB], True, "probit", False), ([PA, PB], False, "logit", True),
                              ([], False, "logit", False), ([], True, "probit", True), ([PA], True, "logit", True)]:
        specs.append((f"CompositeTransform[{','.join(per)}|{b2u}|{bt}|{aff}]",
                      lambda dt, per=per, b2u=b2u, bt=bt, aff=aff: T.CompositeTransform(parameters=[PA, PB], periodic_parameters=per, prior_bounds=pb,
                                                                                     bounded_to_unbounded=b2u, bounded_transform=bt, affine_transform=aff,
                                                                                     xp=xp, dtype=dt, eps=1e-5)))
    specs.append(("FlowTransform", lambda dt: T.FlowTransform(parameters=[PA, PB], prior_bounds=pb, bounded_transform="logit", xp=xp, dtype=dt)))
    try:
        for (name, mk), dt, fitted in itertools.product(specs, ("float32", "float64"), (False, True)):
            case = {"part": "transform", "class": name, "ns": ns, "dtype": dt, "fitted": fitted}
            needs_fit = "Affine" in name or "|True]" in name or name == "FlowTransform"
            if not fitted and needs_fit:
                continue
            r.case(explorer.digest(case), nontrivial=fitted or name != "IdentityTransform")
            path = os.path.join(tmp, "t.h5")
            try:
                tr = mk(get_dtype(ns, dt))
                x = xp.asarray(probe, dtype=get_dtype(ns, dt))
                if fitted:
                    tr.fit(x)
                with h5py.File(path, "w") as f:
                    tr.save(f, "data_transform")
                with h5py.File(path, "r") as f:
                    back = T.BaseTransform.load(f, "data_transform")
                y0, j0 = tr.forward(x)
                y1, j1 = back.forward(x)
                xb0, _ = tr.inverse(y0)
                xb1, _ = back.inverse(y0)
            except Exception as e:
                from env import exc_site

                r.violation(f"C13/transform/{name.split('[')[0]}/raises/{type(e).__name__}/{exc_site(e)}/{ns}", repr(e)[:200], case)
                continue
            base = name.split("[")[0]
            if type(back).__name__ != base:
                r.violation(f"C13/transform/{base}/class", type(back).__name__, case)
            tol = 1e-5 if dt == "float32" else 1e-12
            if not (eq_arr(y0, y1, tol) and eq_arr(j0, j1, tol) and eq_arr(xb0, xb1, tol)):
                r.violation(f"C13/transform/{base}/map-changed/{ns}", {"fwd": [tonp(y0).tolist(), tonp(y1).tolist()]}, case)
            if str(tonp(y1).dtype) != str(tonp(y0).dtype):
                r.violation(f"C13/transform/{base}/dtype-changed/{ns}/{tonp(y0).dtype}->{tonp(y1).dtype}", None, case)
            if getattr(back, "eps", None) != getattr(tr, "eps", None):
                r.violation(f"C13/transform/{base}/eps-changed", {"saved": getattr(tr, "eps", None), "loaded": getattr(back, "eps", None)}, case)
        r.sample({"part": "transform", "class": "CompositeTransform[b|True|probit|False]", "ns": ns, "dtype": "float64", "fitted": True})
    finally:
        shutil.rmtree(tmp, ignore_errors=True)
    return r.dump()


def run_flows(arg):
    backend, kwargs_name, dt, trained = arg[:4]
    dims = arg[4] if len(arg) > 4 else 2  # flowjax draws random permutation layers from its key for dims >= 3
    import torch
    from aspire.flows import get_flow_wrapper
    from aspire.transforms import FlowTransform

    r = Report()
    tmp = tempfile.mkdtemp(prefix="c13f_")
    case = {"part": "flow", "backend": backend, "kwargs": kwargs_name, "dtype": dt, "trained": trained, "dims": dims}
    r.case(explorer.digest(case), nontrivial=True)
    # dt == "default64": no dtype is given anywhere and the saving session runs with torch.set_default_dtype(float64)
    default64 = dt == "default64"
    if default64:
        dt = None
        torch.set_default_dtype(torch.float64)
    try:
        F, fxp = get_flow_wrapper(backend)
        if backend == "zuko":
            kwargs = {} if kwargs_name == "default" else {"hidden_features": [8, 8], "transforms": 2}
            mk = lambda dtf: F(dims=dims, seed=3, dtype=dt, data_transform=dtf, **kwargs)
        else:
            import jax

            kwargs = {} if kwargs_name == "default" else {"nn_width": 8, "nn_depth": 1, "flow_layers": 2}
            mk = lambda dtf: F(dims=dims, key=jax.random.key(3), dtype=dt, data_transform=dtf, **kwargs)
        pnames = ["zeta", "alpha", "mu", "kappa"][:dims]
        pbounds = {"zeta": [0.0, 1.0], "alpha": [-5.0, 20.0], "mu": [-1.0, 1.0], "kappa": [0.0, 3.0]}
        dtf = FlowTransform(parameters=pnames, prior_bounds={k: pbounds[k] for k in pnames}, bounded_transform="logit",
                            xp=fxp, dtype=get_dtype("torch" if backend == "zuko" else "jax", dt))
        rng = np.random.default_rng(0)
        cols = [0.2 + 0.6 * rng.uniform(size=64), -3 + 20 * rng.uniform(size=64), -0.8 + 1.6 * rng.uniform(size=64), 0.3 + 2.4 * rng.uniform(size=64)]
        x = np.stack(cols[:dims], axis=1)
        flow = mk(dtf)
        if trained:
            if backend == "zuko":
                flow.fit(x, n_epochs=2, batch_size=32)
            else:
                flow.fit(x, max_epochs=2, batch_size=32, show_progress=False)
        else:
            flow.fit_data_transform(fxp.asarray(x, dtype=get_dtype("torch" if backend == "zuko" else "jax", dt)))
        probe = x[:8]
        lp0 = tonp(flow.log_prob(probe)).astype(np.float64)
        dt0 = str(tonp(flow.log_prob(probe)).dtype)
        loaded = {}
        # the first save, a second save of the same object (an object that has been saved before), and a save of the reloaded object
        for stage, src in (("first-save", "flow"), ("second-save-of-the-same-object", "flow"), ("save-of-the-reloaded-object", "first-save")):
            obj = flow if src == "flow" else loaded[src]
            path = os.path.join(tmp, f"f_{len(loaded)}.h5")
            with h5py.File(path, "w") as f:
                obj.save(f, "flow")
            if default64:
                torch.set_default_dtype(torch.float32)  # the loading session has torch's stock default
            with h5py.File(path, "r") as f:
                loaded[stage] = F.load(f, "flow")
            if default64:
                torch.set_default_dtype(torch.float64)
    except Exception as e:
        from env import exc_site

        r.violation(f"C13/flow/{backend}/raises/{type(e).__name__}/{exc_site(e)}/kwargs={kwargs_name}", repr(e)[:300], case)
        shutil.rmtree(tmp, ignore_errors=True)
        if default64:
            torch.set_default_dtype(torch.float32)
        return r.dump()
    tol = 1e-4 if dt0 == "float32" else 1e-9
    for stage, back in loaded.items():
        suffix = "" if stage == "first-save" else "/" + stage
        try:
            out = back.log_prob(probe)
        except Exception as e:
            from env import exc_site

            r.violation(f"C13/flow/{backend}/loaded-flow-raises/{type(e).__name__}/{exc_site(e)}{suffix}", repr(e)[:300], dict(case, stage=stage))
            continue
        lp1 = tonp(out).astype(np.float64)
        if lp0.shape != lp1.shape or not np.allclose(lp0, lp1, rtol=tol, atol=tol):
            r.violation(f"C13/flow/{backend}/density-changed/kwargs={kwargs_name}{suffix}", {"saved": lp0.tolist(), "loaded": lp1.tolist()}, dict(case, stage=stage))
        if str(tonp(out).dtype) != dt0:
            r.violation(f"C13/flow/{backend}/dtype-changed{suffix}", {"saved": dt0, "loaded": str(tonp(out).dtype)}, dict(case, stage=stage))
    if default64:
        torch.set_default_dtype(torch.float32)
    shutil.rmtree(tmp, ignore_errors=True)
    r.sample(case)
    return r.dump()


def norm(v):
    """Settings compared up to container type."""
    if isinstance(v, dict):
        return {str(k): norm(x) for k, x in sorted(v.items())}
    if isinstance(v, (list, tuple)):
        return [norm(x) for x in v]
    if isinstance(v, np.ndarray):
        return norm(v.tolist())
    if isinstance(v, (np.floating, float)):
        return float(v)
    if isinstance(v, (np.integer, int)) and not isinstance(v, bool):
        return int(v)
    if isinstance(v, bytes):
        return v.decode()
    return v


def run_configs(chunk):
    from aspire import Aspire

    r = Report()
    tmp = tempfile.mkdtemp(prefix="c13c_")

    def ll(s):
        return -0.5 * (np.asarray(s.x) ** 2).sum(1)

    def lp(s):
        return np.zeros(len(s.x))

    try:
        for cfg in chunk:
            params, bounds, periodic, fkw, ns, dt, eps, bt = cfg
            case = {"part": "config", "parameters": params, "prior_bounds": bounds, "periodic": periodic, "flow_kwargs": fkw,
                    "xp": ns, "dtype": dt, "eps": eps, "bounded_transform": bt}
            r.case(explorer.digest(case), nontrivial=True)
            path = os.path.join(tmp, "c.h5")
            kw = dict(fkw)
            try:
                a = Aspire(log_likelihood=ll, log_prior=lp, dims=2, parameters=params, prior_bounds=bounds, periodic_parameters=periodic,
                           xp=get_xp(ns) if ns else None, dtype=dt, eps=eps, bounded_transform=bt, flow_backend="zuko", **kw)
                if params is None:
                    a.parameters = None
                    continue
                from aspire.samples import Samples

                rng = np.random.default_rng(0)
                xs = np.stack([0.2 + 0.6 * rng.uniform(size=32), -3 + 6 * rng.uniform(size=32)], axis=1)
                a.fit(Samples(x=xs, parameters=params, xp=get_xp("numpy")), n_epochs=1, batch_size=32)
                with h5py.File(path, "w") as f:
                    a.save_config(f, include_sampler_config=False)
                    a.save_flow(f)
                b = Aspire.resume_from_file(path, log_likelihood=ll, log_prior=lp)
            except Exception as e:
                from env import exc_site

                r.violation(f"C13/config/raises/{type(e).__name__}/{exc_site(e)}/flow_kwargs={'nested' if fkw else 'empty'}", repr(e)[:300], case)
                continue
            compare_settings(r, a, b, case)
        if chunk:
            r.sample({"part": "config", "example": list(chunk[0])})
    finally:
        shutil.rmtree(tmp, ignore_errors=True)
    return r.dump()


def compare_settings(r, a, b, case, sig="C13/config"):
    for att in ("dims", "parameters", "periodic_parameters", "prior_bounds", "bounded_to_unbounded", "bounded_transform", "flow_matching",
                "flow_backend", "eps", "device"):
        va, vb = norm(getattr(a, att)), norm(getattr(b, att))
        if va != vb:
            r.violation(f"{sig}/setting-changed/{att}", {"saved": va, "loaded": vb}, case)
    xa = getattr(a.xp, "__name__", None) if a.xp is not None else None
    xb = getattr(b.xp, "__name__", None) if b.xp is not None else None
    if xa != xb:
        r.violation(f"{sig}/setting-changed/xp", {"saved": xa, "loaded": xb}, case)
    da = None if a.dtype is None else str(a.dtype).split(".")[-1]
    db = None if b.dtype is None else str(b.dtype).split(".")[-1]
    if da != db:
        r.violation(f"{sig}/setting-changed/dtype/{da}->{db}", {"saved": da, "loaded": db}, case)
    fa = {k: v for k, v in norm(a.flow_kwargs).items() if k != "parameters"}
    fb = {k: v for k, v in norm(b.flow_kwargs).items() if k != "parameters"}
    if fa != fb:
        r.violation(f"{sig}/setting-changed/flow_kwargs", {"saved": fa, "loaded": fb}, case)


def run_config_rewrite(order):
    """Two instances with different settings write their configuration (and flow) into the same file one after the other,
    through the calls that do so (fit / sample_posterior with checkpoint_path): the file then describes the second one."""
    from aspire import Aspire
    from aspire.samples import Samples

    r = Report()
    tmp = tempfile.mkdtemp(prefix="c13w_")

    def ll(s):
        return -0.5 * (np.asarray(s.x) ** 2).sum(1)

    def lp(s):
        return np.zeros(len(s.x))

    rich = dict(parameters=["u", "v"], prior_bounds={"u": [0.0, 1.0], "v": [-5.0, 5.0]}, periodic_parameters=["v"], eps=1e-3,
                bounded_transform="probit", hidden_features=[8, 8], transforms=2)
    plain = dict(parameters=["u", "v"], prior_bounds={"u": [0.0, 1.0], "v": [-5.0, 5.0]})
    first, second = (rich, plain) if order == "rich-then-plain" else (plain, rich)
    case = {"part": "config-rewrite", "order": order}
    r.case(explorer.digest(case), nontrivial=True)
    path = os.path.join(tmp, "c.h5")
    rng = np.random.default_rng(0)
    xs = np.stack([0.2 + 0.6 * rng.uniform(size=32), -3 + 6 * rng.uniform(size=32)], axis=1)
    try:
        objs = []
        for i, kw in enumerate((first, second)):
            a = Aspire(log_likelihood=ll, log_prior=lp, dims=2, xp=get_xp("numpy"), flow_backend="zuko", **kw)
            a.fit(Samples(x=xs, parameters=kw["parameters"], xp=get_xp("numpy")), n_epochs=1, batch_size=32, checkpoint_path=path, overwrite=i > 0)
            a.sample_posterior(n_samples=4, sampler="importance", checkpoint_path=path)
            objs.append(a)
        b = Aspire.resume_from_file(path, log_likelihood=ll, log_prior=lp)
    except Exception as e:
        from env import exc_site

        r.violation(f"C13/config-rewrite/raises/{type(e).__name__}/{exc_site(e)}/{order}", repr(e)[:300], case)
        shutil.rmtree(tmp, ignore_errors=True)
        return r.dump()
    compare_settings(r, objs[1], b, case, sig=f"C13/config-rewrite/{order}")
    shutil.rmtree(tmp, ignore_errors=True)
    r.sample(case)
    return r.dump()


def run_values(_):
    from aspire.utils import load_from_h5_file, recursively_save_to_h5_file

    r = Report()
    tmp = tempfile.mkdtemp(prefix="c13v_")
    menu = {
        "none": None, "empty_dict": {}, "nested": {"a": 1, "b": {"c": 2.5, "d": "x"}}, "nested_with_empty": {"a": {}, "b": 1},
        "str_list": ["p", "q"], "empty_list": [], "np_scalar": np.float64(2.5), "np_int": np.int64(3), "arr0": np.array(1.5),
        "arr1": np.array([1.0, 2.0]), "bool_true": True, "bool_false": False, "tuple": (1, 2), "int": 7, "float": 0.25, "str": "hello",
        "float_list": [0.5, 1.5], "nested_none": {"a": None, "b": 2},
    }
    # outside the property's value menu (observations only): a mixed list is stored as its str(), a key containing
    # '.' is re-nested on load
    observations = {"mixed_list": [1, "a"], "dotted_key": {"a.b": 1}}
    try:
        for name, val in menu.items():
            case = {"part": "value", "name": name, "value": repr(val)}
            r.case(explorer.digest(case), nontrivial=True)
            path = os.path.join(tmp, "v.h5")
            try:
                with h5py.File(path, "w") as f:
                    recursively_save_to_h5_file(f, "cfg", {"key": val, "other": 1})
                with h5py.File(path, "r") as f:
                    back = load_from_h5_file(f, "cfg")
            except Exception as e:
                from env import exc_site

                r.violation(f"C13/value/raises/{name}/{type(e).__name__}/{exc_site(e)}", repr(e)[:200], case)
                continue
            if "key" not in back:
                r.violation(f"C13/value/dropped/{name}", {"loaded_keys": sorted(back)}, case)
                continue
            if norm(back["key"]) != norm(val):
                r.violation(f"C13/value/changed/{name}", {"saved": repr(val), "loaded": repr(back["key"])}, case)
            if back.get("other") != 1:
                r.violation(f"C13/value/sibling-changed/{name}", None, case)
        for name, val in observations.items():
            path = os.path.join(tmp, "o.h5")
            try:
                with h5py.File(path, "w") as f:
                    recursively_save_to_h5_file(f, "cfg", {"key": val})
                with h5py.File(path, "r") as f:
                    back = load_from_h5_file(f, "cfg")
                if norm(back.get("key")) != norm(val):
                    r.count(f"observation:{name}-does-not-round-trip")
            except Exception:
                r.count(f"observation:{name}-raises")
        r.sample({"part": "value", "name": "nested_with_empty"})
    finally:
        shutil.rmtree(tmp, ignore_errors=True)
    return r.dump()


def dispatch(job):
    return globals()[job[0]](job[1])


def config_menu(tier):
    params = [["a", "b"], None]
    bounds = [None, {"a": [0.0, 1.0], "b": [-5.0, 20.0]}]
    periodic = [None, ["b"]]
    fkw = [{}, {"hidden_features": [8, 8], "transforms": 2}]
    nss = ["numpy", "torch", "jax", None]
    dts = [None, "float32", "float64"]
    epss = [1e-6, 1e-3]
    bts = ["logit", "probit"]
    out = []
    for c in itertools.product(params, bounds, periodic, fkw, nss, dts, epss, bts):
        if c[2] and not c[1]:
            continue
        if c[0] is None:
            continue
        if tier == "quick":
            # single-option sweeps around a base + all pairs with flow kwargs / dtype
            base = (["a", "b"], bounds[1], None, {}, "numpy", None, 1e-6, "logit")
            diff = sum(1 for x, y in zip(c, base) if x != y)
            if diff > 2:
                continue
        out.append(c)
    return out


def run(tier, seed, workers):
    rep = Report()
    jobs = [("run_samples", (cls, ns)) for cls in ("BaseSamples", "Samples", "SMCSamples") for ns in NS]
    jobs += [("run_histories", None), ("run_values", None)]
    jobs += [("run_transforms", ns) for ns in NS]
    for backend in ("zuko", "flowjax"):
        for kw in ("default", "custom"):
            for dt in ("float32", "float64"):
                for trained in (False, True):
                    if tier == "quick" and backend == "flowjax" and (dt == "float32" or (kw == "custom" and not trained)):
                        continue
                    jobs.append(("run_flows", (backend, kw, dt, trained)))
    for backend in ("flowjax", "zuko"):
        jobs.append(("run_flows", (backend, "default", "float64", True, 3)))
        if tier == "thorough" or backend == "flowjax":
            jobs.append(("run_flows", (backend, "custom", "float64", False, 4)))
    # no explicit dtype anywhere, saving session with torch's default dtype set to float64, loading session with the stock default
    jobs.append(("run_flows", ("zuko", "default", "default64", True)))
    jobs.append(("run_flows", ("zuko", "custom", "default64", False)))
    jobs += [("run_config_rewrite", "rich-then-plain"), ("run_config_rewrite", "plain-then-rich")]
    cm = config_menu(tier)
    k = max(1, len(cm) // (workers * 2))
    jobs += [("run_configs", cm[i:i + k]) for i in range(0, len(cm), k)]
    jobs.sort(key=lambda j: 0 if j[0] == "run_flows" and j[1][0] == "flowjax" else 1)
    for d in pmap("checks.c13", "dispatch", jobs, workers):
        rep.merge(d)
    rep.count("config_menu", len(cm))
    return rep


def replay(case):
    r = Report()
    part = case.get("part")
    if part == "samples":
        r.merge(run_samples((case["class"], case["ns"])))
    elif part == "history":
        r.merge(run_histories(None))
    elif part == "transform":
        r.merge(run_transforms(case["ns"]))
    elif part == "flow":
        r.merge(run_flows((case["backend"], case["kwargs"], case["dtype"], case["trained"], case.get("dims", 2))))
    elif part == "config-rewrite":
        r.merge(run_config_rewrite(case["order"]))
    elif part == "config":
        r.merge(run_configs([(case["parameters"], case["prior_bounds"], case["periodic"], case["flow_kwargs"], case["xp"],
                              case["dtype"], case["eps"], case["bounded_transform"])]))
    else:
        r.merge(run_values(None))
    return r
