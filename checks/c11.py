"""C11 Resuming from any checkpoint reproduces the uninterrupted run.

Fault enumeration: an exception is injected at every call index of the user's
likelihood/prior of a reference run; the run is resumed from the last
checkpoint written before the fault through every route (bytes, dict, file
path, Aspire.resume_from_file) and compared bit for bit with the reference."""
import itertools
import os
import pickle
import shutil
import tempfile

import numpy as np

from env import resume_harness as rh
from env.targets import InjectedInterrupt
from mc import explorer
from mc.par import pmap
from mc.report import Report

LEVEL = "fault_enumeration"
RULE = ("configuration grid (sampler x schedule x checkpoint cadence x n_final_samples [with / without its own n_final_steps] x preconditioning x seed) x every "
        "user-callable call index k of the reference run (fault = exception, and KeyboardInterrupt, raised inside the k-th likelihood/prior call) x generator created by the sampler / handed to its constructor x "
        "resume route {bytes, dict (unpickled), the live dict object the callback received - for every crash point -, HDF5 file path, raw pickle file path, the interrupted sampler object itself}; plus the resume-from-file constructor route with a real zuko flow; plus BlackJAXSMC (stand-in rwmh kernel) resumed from every checkpoint of an uninterrupted run; thorough "
        "adds a second fault inside every resumed run. One evaluation = one faulted or resumed run of the real sampler; "
        "two configurations run a kernel that also draws bounded integers from the sampler's generator (buffered half-word in the generator state). non-trivial = crash point with at least one checkpoint before it and at least one iteration left to run; "
        "distinct = distinct (config, crash point, route)")
ASSUMPTIONS = [
    "interruption = Python exception at a user-callable boundary (the property's definition); torn HDF5 writes are not modelled",
    "stub kernels: Gaussian random-walk Metropolis driven only by the sampler's generator (smc) / deterministic sweep (emcee_smc)",
    "emcee_smc offers no way to pass a generator; the harness assigns sampler.rng (instance attribute) to own the random source",
]

SCHEDULES = {
    "adaptive": {"adaptive": True, "target_efficiency": 0.8},
    "fixed3": {"adaptive": False, "n_steps": 3},
    "min_step": {"adaptive": True, "target_efficiency": 0.9, "min_step": 0.15},
    "max_n": {"adaptive": True, "target_efficiency": 0.9, "max_n_steps": 4},
    "ramp": {"adaptive": True, "target_efficiency": (0.5, 0.9), "target_efficiency_rate": 2.0},
}


def norm_path(d):
    import re

    return re.sub(r"\[\d+\]", "[]", d.split(":")[0])


def compare(r, R, rep, sig_prefix, case):
    d = rh.diff(rh.summary(R), rh.summary(r))
    if d:
        rep.violation(f"{sig_prefix}/{norm_path(d)}", {"first_difference": d, "ref_betas": R.history["beta"],
                                                        "got_betas": r.history["beta"] if r.history else None}, case)
        return False
    return True


def run_config(cfg):
    rep = Report()
    tier = cfg.pop("_tier", "quick")
    tmpdir = tempfile.mkdtemp(prefix="c11_")
    try:
        R = rh.run(cfg)
        if R.exception is not None:
            rep.case(explorer.digest(["ref", cfg]))
            rep.violation(f"C11/run-raises/{R.exception[0]}/{R.exception[1]}", R.exception, {"cfg": cfg})
            return rep.dump()
        K = R.n_calls
        ck = R.sink  # (iteration, bytes)
        iters = len(R.history["beta"])
        rep.case(explorer.digest(["ref", cfg]), nontrivial=False)
        # determinism of the reference (replay twice before trusting anything)
        R2 = rh.run(cfg)
        if rh.diff(rh.summary(R), rh.summary(R2)) or len(R2.sink) != len(ck) or not all(
                rh.payload_equal(a[1], b[1]) and a[0] == b[0] for a, b in zip(R2.sink, ck)):
            raise explorer.HarnessError(f"reference run is not deterministic for {cfg}")
        last_for_k = {}
        for k in range(K):
            F = rh.run(cfg, fault_at=k)
            if F.exception is None:
                raise explorer.HarnessError(f"fault at call {k} did not surface")
            if F.exception[0] != "InjectedFault":
                rep.case(explorer.digest([cfg, k]))
                rep.violation(f"C11/run-raises/{F.exception[0]}/{F.exception[1]}", F.exception, {"cfg": cfg, "crash_point": k})
                last_for_k[k] = -1
                continue
            if not all(rh.payload_equal(a[1], b[1]) for a, b in zip(F.sink, ck[: len(F.sink)])):
                raise explorer.HarnessError(f"faulted run diverged from the reference before the fault (k={k}, {cfg})")
            # the same crash point hit by a KeyboardInterrupt (Ctrl-C / scheduler signal) instead of an exception: the
            # checkpoints written up to the interruption are the uninterrupted run's, and resuming from the last one
            # reproduces it
            FI = rh.run(cfg, fault_at=k, fault_exc=InjectedInterrupt)
            rep.case(explorer.digest([cfg, k, "interrupt"]), nontrivial=True)
            casei = {"cfg": cfg, "crash_points": [k, k], "fault": "KeyboardInterrupt", "route": "bytes"}
            if FI.exception is None or FI.exception[0] != "KeyboardInterrupt":
                rep.violation(f"C11/interrupt-not-propagated/{FI.exception[0] if FI.exception else 'swallowed'}", FI.exception, casei)
            elif len(FI.sink) != len(F.sink) or not all(rh.payload_equal(a[1], b[1]) for a, b in zip(FI.sink, F.sink)):
                ri = rh.run(cfg, resume_from=FI.sink[-1][1]) if FI.sink else None
                if ri is None or ri.exception is not None:
                    rep.violation("C11/resume-raises/after-KeyboardInterrupt", ri.exception if ri else None, casei)
                elif compare(ri, R, rep, "C11/resumed-run-differs/after-KeyboardInterrupt", casei):
                    rep.count("observation:interrupted-run-wrote-other-checkpoints-but-resumes-identically")
            j = len(F.sink) - 1
            last_for_k[k] = j
            if j >= 0 and k % 2 == 0:
                # the interrupted sampler object itself is asked to carry on from the last checkpoint (same process)
                payload_same = F.sink[-1][1]
                rs = rh.resume_on_same_sampler(F, payload_same)
                cases = {"cfg": cfg, "checkpoint_index": j, "iteration": ck[j][0], "route": "same-sampler-object", "crash_points": [k, k]}
                rep.case(explorer.digest([cfg, k, "same-object"]), nontrivial=ck[j][0] < iters)
                if rs.exception is not None:
                    rep.violation(f"C11/resume-raises/same-sampler-object/{rs.exception[0]}", rs.exception, cases)
                else:
                    compare(rs, R, rep, "C11/resumed-run-differs/same-sampler-object", cases)
                F = rh.run(cfg, fault_at=k)  # a fresh faulted run for the routes below (the object above has moved on)
            rep.case(explorer.digest([cfg, k]), nontrivial=j >= 0 and ck[j][0] < iters)
            # route "live dict": the dictionary object the callback received, kept by the user in the same
            # process and used after the fault (its content at resume time depends on where the run died)
            if j >= 0:
                case = {"cfg": cfg, "checkpoint_index": j, "iteration": ck[j][0], "route": "live-dict", "crash_points": [k, k]}
                rl = rh.run(cfg, resume_from=F.live[-1])
                rep.case(explorer.digest([cfg, k, "live-dict"]), nontrivial=ck[j][0] < iters)
                if rl.exception is not None:
                    rep.violation(f"C11/resume-raises/live-dict/{rl.exception[0]}", rl.exception, case)
                else:
                    compare(rl, R, rep, "C11/resumed-run-differs/live-dict", case)
        rep.count("crash_points", K)
        rep.count("crash_points_before_first_checkpoint", sum(1 for j in last_for_k.values() if j < 0))
        # resume once per distinct checkpoint and route (the resumed run depends only on the payload)
        for j in sorted(set(v for v in last_for_k.values() if v >= 0)):
            it, payload = ck[j]
            ks = [k for k, v in last_for_k.items() if v == j]
            for route in ("bytes", "dict", "path", "pickle-file"):
                case = {"cfg": cfg, "checkpoint_index": j, "iteration": it, "route": route, "crash_points": [ks[0], ks[-1]]}
                try:
                    if route == "bytes":
                        r = rh.run(cfg, resume_from=payload)
                    elif route == "dict":
                        r = rh.run(cfg, resume_from=pickle.loads(payload))
                    elif route == "pickle-file":  # a path that is not an HDF5 file is read as a raw pickle
                        pkl = os.path.join(tmpdir, f"ck_{j}.pkl")
                        with open(pkl, "wb") as fh:
                            fh.write(payload)
                        r = rh.run(cfg, resume_from=pkl)
                    else:
                        path = os.path.join(tmpdir, f"ck_{j}.h5")
                        F = rh.run(cfg, fault_at=ks[0], file_path=path)
                        if F.exception is None:
                            raise explorer.HarnessError("file-route fault did not surface")
                        if F.exception[0] != "InjectedFault":
                            rep.case(explorer.digest([cfg, j, route]))
                            rep.violation(f"C11/run-raises/{F.exception[0]}/{F.exception[1]}", F.exception, case)
                            continue
                        r = rh.run(cfg, resume_from=path)
                except explorer.HarnessError:
                    raise
                except Exception as e:
                    import traceback

                    tb = traceback.extract_tb(e.__traceback__)
                    site = next((f"{t.filename.split('/')[-1]}:{t.name}" for t in reversed(tb) if "/aspire/" in t.filename), "?")
                    rep.case(explorer.digest([cfg, j, route]))
                    rep.violation(f"C11/resume-raises/{route}/{type(e).__name__}/{site}", repr(e)[:300], case)
                    continue
                rep.case(explorer.digest([cfg, j, route]), nontrivial=it < iters)
                rep.outcomes.add(explorer.digest([r.history["beta"] if r.history else None]))
                if r.exception is not None:
                    rep.violation(f"C11/resume-raises/{route}/{r.exception[0]}", r.exception, case)
                    continue
                ok = compare(r, R, rep, f"C11/resumed-run-differs/{route}", case)
                # second fault inside the resumed run
                if tier == "thorough" and route == "bytes" and ok:
                    for m in range(r.n_calls):
                        F2 = rh.run(cfg, resume_from=payload, fault_at=m)
                        if F2.exception is None:
                            raise explorer.HarnessError("second fault did not surface")
                        payload2 = F2.sink[-1][1] if F2.sink else payload
                        r2 = rh.run(cfg, resume_from=payload2)
                        rep.case(explorer.digest([cfg, j, "second", m]), nontrivial=True)
                        compare(r2, R, rep, "C11/resumed-twice-differs/bytes",
                                dict(case, second_fault_at=m))
        # the process may also die after the last checkpoint was written (or a finished run is invoked again): resuming from
        # the final checkpoint reproduces the finished run
        if ck:
            for route in ("bytes", "dict"):
                casef = {"cfg": cfg, "checkpoint_index": len(ck) - 1, "iteration": ck[-1][0], "route": route, "crash_points": ["after-the-last-checkpoint"]}
                rf = rh.run(cfg, resume_from=ck[-1][1] if route == "bytes" else pickle.loads(ck[-1][1]))
                rep.case(explorer.digest([cfg, "final", route]), nontrivial=cfg.get("n_final") is not None)
                if rf.exception is not None:
                    rep.violation(f"C11/resume-raises/{route}/from-the-final-checkpoint/{rf.exception[0]}", rf.exception, casef)
                else:
                    compare(rf, R, rep, f"C11/resumed-run-differs/{route}/from-the-final-checkpoint", casef)
        rep.sample({"cfg": cfg, "calls": K, "checkpoints": [i for i, _ in ck], "iterations": iters})
    finally:
        shutil.rmtree(tmpdir, ignore_errors=True)
    return rep.dump()


def run_blackjax_config(cfg):
    """BlackJAXSMC (stand-in rwmh kernel): resume from every checkpoint the uninterrupted run wrote (the user's functions are
    traced by JAX, so no fault is injected inside them; the run is cut at the checkpoints instead)."""
    from env.jax_env import run_blackjax

    rep = Report()
    R = run_blackjax(cfg)
    case0 = {"blackjax": True, "cfg": cfg}
    rep.case(explorer.digest(case0), nontrivial=False)
    if R.exception is not None:
        rep.violation(f"C11/blackjax_smc/run-raises/{R.exception[0]}/{R.exception[1]}", R.exception, case0)
        return rep.dump()
    R2 = run_blackjax(cfg)
    if rh.diff(rh.summary(R), rh.summary(R2)):
        raise explorer.HarnessError(f"blackjax reference run is not deterministic for {cfg}")
    iters = len(R.history["beta"])
    seen = set()
    for it, payload in R.sink:
        if it in seen:
            continue
        seen.add(it)
        for route in ("bytes", "dict"):
            case = dict(case0, iteration=it, route=route)
            r = run_blackjax(cfg, resume_from=payload if route == "bytes" else pickle.loads(payload))
            rep.case(explorer.digest(case), nontrivial=it < iters)
            if r.exception is not None:
                rep.violation(f"C11/blackjax_smc/resume-raises/{route}/{r.exception[0]}/{r.exception[1]}", r.exception, case)
                continue
            compare(r, R, rep, f"C11/blackjax_smc/resumed-run-differs/{route}", case)
    rep.sample(case0)
    return rep.dump()


def configs(tier, seed):
    seeds = sorted({0, 1, seed})
    out = []
    for sampler in ("smc", "emcee_smc"):
        for sname, opts in SCHEDULES.items():
            if sampler == "emcee_smc" and sname in ("min_step", "max_n"):
                continue
            for cadence, nfinal, precond, sd in itertools.product((1, 2, 3), (None, 9), ("none", "periodic", "logit_affine"), seeds):
                if tier == "quick":
                    # quick: every single-option sweep around (cadence 1, no n_final, precond none, seed 0) plus diagonal
                    dev = (cadence != 1) + (nfinal is not None) + (precond != "none") + (sd != 0)
                    if dev > 1 and not (cadence == 2 and nfinal == 9 and precond == "logit_affine" and sd == seeds[-1]):
                        continue
                out.append({"sampler": sampler, "N": 8, "opts": dict(opts), "cadence": cadence, "n_final": nfinal,
                            "precond": precond, "seed": sd, "sched": sname, "_tier": tier})
    # a final stage with its own number of kernel steps (sampler_kwargs["n_final_steps"])
    for sampler in ("smc", "emcee_smc"):
        for sname in ("adaptive", "fixed3") if tier == "thorough" else ("adaptive",):
            for cadence in (1, 2) if tier == "thorough" else (1,):
                out.append({"sampler": sampler, "N": 8, "opts": dict(SCHEDULES[sname]), "cadence": cadence, "n_final": 9, "n_final_steps": 4,
                            "precond": "none", "seed": 0, "sched": sname, "_tier": tier})
    # a kernel that also draws bounded integers from the sampler's generator (NumPy buffers half of a 64-bit word between
    # such draws: the generator's state is more than its stream position)
    for cadence in (1, 2):
        out.append({"sampler": "smc", "N": 8, "opts": dict(SCHEDULES["adaptive"]), "cadence": cadence, "n_final": 9 if cadence == 2 else None,
                    "precond": "none", "seed": 0, "sched": "adaptive", "kernel_int_draws": True, "_tier": tier})
    # the user's own generator handed to the sampler constructor (a resumed run is given an identically seeded one);
    # EmceeSMC's constructor takes no generator
    for sampler in ("smc",):
        for sname in ("adaptive", "fixed3") if tier == "thorough" else ("adaptive",):
            out.append({"sampler": sampler, "N": 8, "opts": dict(SCHEDULES[sname]), "cadence": 1, "n_final": 9 if sname == "adaptive" else None,
                        "precond": "none", "seed": 0, "sched": sname, "rng_way": "constructor", "_tier": tier})
    if tier == "thorough":
        for sname in ("adaptive", "fixed3"):
            out.append({"sampler": "smc", "N": 8, "opts": dict(SCHEDULES[sname]), "cadence": 1, "n_final": None,
                        "precond": "none", "seed": 0, "sched": sname, "ns": "torch", "_tier": tier})
    return out


def run(tier, seed, workers):
    rep = Report()
    cfgs = configs(tier, seed)
    for d in pmap("checks.c11", "run_config", cfgs, workers, chunksize=2):
        rep.merge(d)
    rep.count("configs", len(cfgs))
    from checks import c11_file

    for d in pmap("checks.c11_file", "run_config", c11_file.configs(tier, seed), workers):
        rep.merge(d)
    bj = []
    for opts, nf in (({"adaptive": True, "target_efficiency": 0.8}, 10), ({"adaptive": False, "n_steps": 3}, None)):
        for pre in ("none", "logit") if tier == "thorough" else ("none",):
            for cad in (1, 2):
                bj.append({"sampler": "blackjax_smc", "N": 8, "seed": 0, "opts": opts, "n_final": nf, "precond": pre, "cadence": cad})
    for d in pmap("checks.c11", "run_blackjax_config", bj, workers):
        rep.merge(d)
    rep.count("blackjax_configs", len(bj))
    return rep


def replay(case):
    rep = Report()
    if case.get("blackjax"):
        rep.merge(run_blackjax_config(case["cfg"]))
        return rep
    cfg = dict(case["cfg"])
    cfg.pop("_tier", None)
    te = cfg["opts"].get("target_efficiency")
    if isinstance(te, list):
        cfg["opts"]["target_efficiency"] = tuple(te)
    if case.get("route") == "resume_from_file":
        from checks import c11_file

        rep.merge(c11_file.run_config(dict(cfg, _tier="quick")))
        return rep
    rep.merge(run_config(dict(cfg, _tier="thorough" if "second_fault_at" in case else "quick")))
    return rep
