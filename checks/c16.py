"""C16 Slicing, concatenating, pickling and dict-converting samples keep rows aligned.

Explicit-state BFS over operation sequences on real sample-set objects,
compared in every state with a plain reference model (row tags)."""
import itertools
import math
import pickle

import numpy as np

from env import get_dtype, get_xp, tonp
from mc import bfs as B
from mc import explorer
from mc.par import pmap
from mc.report import Report

LEVEL = "model_checking"
RULE = ("BFS from every start object (class in {BaseSamples, Samples, SMCSamples} x {numpy,torch,jax} x {float32,float64} x "
        "8 subsets of the optional fields x parameter names stored in non-lexicographic order (b, a) [and (a, b) for numpy], 4 tagged rows; SMCSamples also with zero-valued temperature / evidence; unweighted Samples also with an evidence given by their producer) over the action alphabet {int index 0/-1, 3 slices, 2 boolean masks (also one written as a Python list), "
        "2 index arrays (reversal, repeats), partition at each cut + concatenate (also with one piece pickled / dict-converted in between, or holding its columns in another order), pickle round trip, to_dict->from_dict flat/"
        "nested/flat without copying} to depth 3 (quick) / 4 (thorough); abstract state = (class, namespace, dtype, row-tag tuple, field presence, "
        "evidence tag); every transition is executed on the implementation and the resulting object compared with the "
        "reference model (list of row tags + presence + carried evidence). Plus: concatenation of 2 / 3 pieces for every ordered pair of "
        "different optional-field subsets (each class x namespace): every per-particle field of the result is absent or has one aligned entry per row")
ASSUMPTIONS = [
    "rows are identified by values (x_i0 = i+1, L_i = 100+i, pi_i = 200+i, q_i = 300+i)",
    "selecting by a Python int yields a single 1-D row (pinned by the repository's own test) and is terminal",
    "operations that would produce an empty set are not part of the alphabet",
]

N0 = 4
GIVEN = {"on": False}  # Samples start objects without proposal density (unweighted) that carry an evidence given by their producer (what an SMC run returns)
ZERO = {"on": False}  # start objects whose set-level attributes are zero (beta = 0: the first SMC population; evidence 0.0)
NAMES = ["b", "a"]  # storage order (column 0 is "b"): deliberately not the lexicographic order of the names
EV_SMC = -1.25
ERR_SMC = 0.125


class Model:
    """Reference model: plain Python."""

    def __init__(self, cls, ns, dt, flags, tags, ev, row=False):
        self.cls, self.ns, self.dt, self.flags, self.tags, self.ev, self.row = cls, ns, dt, flags, tuple(tags), ev, row

    def key(self):
        return (self.cls, self.ns, self.dt, self.flags, self.tags, self.ev, self.row, tuple(NAMES), ZERO["on"], GIVEN["on"])


def start(cls, ns, dt, flags, names=None, zero=False):
    from aspire import samples as S

    if names is not None:
        NAMES[:] = list(names)
    GIVEN["on"] = zero == "given"
    zero = zero is True
    ZERO["on"] = bool(zero)

    xp = get_xp(ns)
    i = np.arange(N0, dtype=np.float64)
    x = np.stack([i + 1, 10 * (i + 1)], axis=1)
    kw = {}
    if flags[0]:
        kw["log_likelihood"] = xp.asarray(100 + i)
    if flags[1]:
        kw["log_prior"] = xp.asarray(200 + i)
    if flags[2]:
        kw["log_q"] = xp.asarray(300 + i)
    C = getattr(S, cls)
    if cls == "SMCSamples":
        kw.update(beta=0.0 if zero else 0.5, log_evidence=0.0 if zero else EV_SMC, log_evidence_error=0.0 if zero else ERR_SMC)
    obj = C(x=xp.asarray(x), xp=xp, dtype=get_dtype(ns, dt), parameters=list(NAMES), **kw)
    if cls == "Samples" and GIVEN["on"] and not flags[2]:
        obj.log_evidence, obj.log_evidence_error = EV_SMC, ERR_SMC  # as to_standard_samples() / a sampler's return value
        ev = "fixed"
    elif cls == "Samples":
        ev = "computed:" + ",".join(map(str, range(N0))) if all(flags) else None
    elif cls == "SMCSamples":
        ev = "given"
    else:
        ev = None
    return obj, Model(cls, ns, dt, flags, range(N0), ev)


def select_index(name, n):
    if name == "int0":
        return 0
    if name == "int-1":
        return -1
    if name == "s1:":
        return slice(1, None)
    if name == "s:-1":
        return slice(None, -1)
    if name == "s::2":
        return slice(None, None, 2)
    if name == "mask-alt":
        return np.array([j % 2 == 0 for j in range(n)])
    if name == "mask-last2":
        return np.array([j >= n - 2 for j in range(n)])
    if name == "idx-rev":
        return np.arange(n)[::-1].copy()
    if name == "idx-rep":
        return np.array([0, 0, n - 1])
    if name == "mask-pylist":  # a mask written as a plain Python list of bools
        return [j % 2 == 0 for j in range(n)]
    if name == "idx-pylist":
        return [n - 1, 0]
    raise ValueError(name)


SELECTS = ["int0", "int-1", "s1:", "s:-1", "s::2", "mask-alt", "mask-last2", "idx-rev", "idx-rep", "mask-pylist", "idx-pylist"]
PYLIST = ("mask-pylist", "idx-pylist")  # JAX itself refuses list indices, so these are offered for numpy and torch only


def enabled(model):
    if model.row:
        return []
    n = len(model.tags)
    acts = []
    for name in SELECTS:
        if name in PYLIST and model.ns == "jax":
            continue
        idx = select_index(name, n)
        res = np.arange(n)[idx]
        if np.ndim(res) == 0 or len(res) >= 1:
            if n > 6 and name in ("idx-rep",):
                continue
            acts.append(("select", name))
    for c in range(1, n):
        if c in (1, n - 1) or n <= 4:
            acts.append(("partition-concat", c))
    if n >= 2:
        # the second piece holds the same columns in another order (rebuilt by name): joining either refuses or goes by name
        acts.append(("partition-reordered-concat",))
        # one piece of the partition goes through a round trip before the pieces are put together again
        acts.append(("partition-roundtrip-concat", "pickle"))
        acts.append(("partition-roundtrip-concat", "dict"))
    acts.append(("pickle",))
    acts.append(("dict", "flat"))
    acts.append(("dict", "nested"))
    acts.append(("dict", "flat-nocopy"))
    return acts


class Failed:
    """Result of a transition on which the implementation raised."""

    def __init__(self, exc, action, prev_model):
        self.exc, self.action, self.prev_model = exc, action, prev_model


def apply(obj, model, action):
    """Returns (new_obj | Failed, new_model)."""
    from aspire import samples as S

    xp = get_xp(model.ns)
    n = len(model.tags)
    kind = action[0]
    try:
        if kind == "select":
            idx = select_index(action[1], n)
            res = np.arange(n)[idx]
            if isinstance(idx, np.ndarray):
                if model.ns == "torch":
                    import torch

                    lib_idx = torch.as_tensor(idx)
                elif model.ns == "jax":
                    import jax.numpy as jnp

                    lib_idx = jnp.asarray(idx)
                else:
                    lib_idx = idx
            else:
                lib_idx = idx
            new = obj[lib_idx]
            if np.ndim(res) == 0:
                nm = Model(model.cls, model.ns, model.dt, model.flags, [model.tags[int(res)]], model.ev, row=True)
            else:
                nm = Model(model.cls, model.ns, model.dt, model.flags, [model.tags[j] for j in res], model.ev)
            return new, nm
        if kind == "partition-concat":
            c = action[1]
            pieces = [obj[slice(0, c)], obj[slice(c, None)]]
            new = type(obj).concatenate(pieces)
            return new, Model(model.cls, model.ns, model.dt, model.flags, model.tags, model.ev)
        if kind == "partition-reordered-concat":
            d = obj[slice(1, None)].to_dict(flat=True)
            d["parameters"] = list(reversed(d["parameters"]))
            other = type(obj).from_dict(d)  # same rows, columns stored as (a, b) instead of (b, a)
            try:
                new = type(obj).concatenate([obj[slice(0, 1)], other])
            except ValueError as e:
                if "arameters do not match" in str(e):
                    return obj, model  # refusing to join sets whose column order differs is the safe answer
                raise
            return new, Model(model.cls, model.ns, model.dt, model.flags, model.tags, model.ev)
        if kind == "partition-roundtrip-concat":
            if action[1] == "pickle":
                pieces = [pickle.loads(pickle.dumps(obj[slice(0, 1)])), obj[slice(1, None)]]
            else:
                last = obj[slice(n - 1, None)]
                pieces = [obj[slice(0, n - 1)], type(obj).from_dict(last.to_dict(flat=True))]
            new = type(obj).concatenate(pieces)
            return new, Model(model.cls, model.ns, model.dt, model.flags, model.tags, model.ev)
        if kind == "pickle":
            new = pickle.loads(pickle.dumps(obj))
            return new, Model(model.cls, model.ns, model.dt, model.flags, model.tags, model.ev)
        if kind == "dict":
            d = obj.to_dict(flat=action[1] != "nested", **({"copy": False} if action[1] == "flat-nocopy" else {}))
            new = type(obj).from_dict(d)
            return new, Model(model.cls, model.ns, model.dt, model.flags, model.tags, model.ev)
    except Exception as e:
        from env import exc_site

        return Failed((type(e).__name__, exc_site(e), str(e)[:160]), action, model), model
    raise ValueError(action)


def compare(obj, model):
    """Returns list of (signature-suffix, detail)."""
    out = []
    if type(obj).__name__ != model.cls:
        out.append(("class", type(obj).__name__))
        return out
    xpn = getattr(obj.xp, "__name__", str(obj.xp))
    want_ns = {"numpy": "numpy", "torch": "torch", "jax": "jax"}[model.ns]
    if want_ns not in xpn:
        out.append((f"namespace/{model.ns}->{xpn}", xpn))
    x = tonp(obj.x)
    if str(x.dtype) != model.dt:
        out.append((f"dtype/{model.dt}->{x.dtype}", str(x.dtype)))
    x = x.astype(np.float64)
    tags = np.asarray(model.tags, dtype=np.float64)
    if model.row:
        if x.shape != (2,) or x[0] != tags[0] + 1:
            out.append(("row-x", x.tolist()))
        want_shape = ()
    else:
        if x.shape != (len(tags), 2) or not np.array_equal(x[:, 0], tags + 1) or not np.array_equal(x[:, 1], 10 * (tags + 1)):
            out.append(("x-rows", {"x": x.tolist(), "tags": list(model.tags)}))
            return out
        want_shape = (len(tags),)
    base = {"log_likelihood": 100, "log_prior": 200, "log_q": 300}
    for f, flag in zip(("log_likelihood", "log_prior", "log_q"), model.flags):
        v = getattr(obj, f)
        if not flag:
            if v is not None:
                out.append((f"field-appeared/{f}", None))
            continue
        if v is None:
            out.append((f"field-lost/{f}", None))
            continue
        vn = tonp(v).astype(np.float64)
        want = (base[f] + tags) if not model.row else np.float64(base[f] + tags[0])
        if vn.shape != np.shape(want) or not np.array_equal(vn, want):
            out.append((f"field-misaligned/{f}", {"got": vn.tolist(), "want": np.asarray(want).tolist()}))
    if list(obj.parameters) != list(NAMES):
        out.append(("parameters", obj.parameters))
    if model.cls == "Samples":
        if all(model.flags) and not model.row:
            lw = getattr(obj, "log_w", None)
            if lw is None:
                out.append(("log_w-lost", None))
            else:
                lwn = tonp(lw).astype(np.float64)
                want = (100 + tags) + (200 + tags) - (300 + tags)
                if lwn.shape != want.shape or not np.allclose(lwn, want, rtol=0, atol=1e-3):
                    out.append(("field-misaligned/log_w", {"got": lwn.tolist(), "want": want.tolist()}))
                w = tonp(obj.weights).astype(np.float64)
                if w.shape != want.shape or not np.allclose(w, np.exp(want), rtol=1e-5):
                    out.append(("field-misaligned/weights", {"got": w.tolist()}))
        ev = obj.log_evidence
        if model.ev is None:
            if ev is not None:
                out.append(("evidence-appeared", float(tonp(ev))))
        elif model.ev == "fixed":
            if ev is None:
                out.append(("evidence-lost/given-to-unweighted-set", None))
            elif float(tonp(ev)) != EV_SMC:
                out.append(("evidence-changed/given-to-unweighted-set", float(tonp(ev))))
            elif obj.log_evidence_error is None or float(tonp(obj.log_evidence_error)) != ERR_SMC:
                out.append(("evidence-error-lost/given-to-unweighted-set", None))
        else:
            rows = [int(t) for t in model.ev.split(":")[1].split(",")]
            want = math.log(sum(math.exp(float(t)) for t in rows) / len(rows))  # log mean exp(L+pi-q) = log mean exp(t)
            if ev is None:
                out.append(("evidence-lost", None))
            elif abs(float(tonp(ev)) - want) > 1e-5:
                out.append(("evidence-recomputed-not-carried", {"got": float(tonp(ev)), "carried": want}))
    if model.cls == "SMCSamples":
        want_beta, want_ev, want_err = (0.0, 0.0, 0.0) if ZERO["on"] else (0.5, EV_SMC, ERR_SMC)
        if obj.beta is None or obj.beta != want_beta:
            out.append(("beta", obj.beta))
        if model.ev == "given":
            if obj.log_evidence is None:
                out.append(("evidence-lost", None))
            elif float(tonp(obj.log_evidence)) != want_ev:
                out.append(("evidence-changed", float(tonp(obj.log_evidence))))
            if obj.log_evidence_error is None or float(tonp(obj.log_evidence_error)) != want_err:
                out.append(("evidence-error-lost", None))
    return out


def run_start(arg):
    cls, ns, dt, flags, depth, names = arg[:6]
    zero = arg[6] if len(arg) > 6 else False
    r = Report()
    cache = {}

    def build(hist):
        if hist in cache:
            return cache[hist]
        if not hist:
            res = start(cls, ns, dt, flags, names, zero)
        else:
            obj, model = build(hist[:-1])
            if isinstance(obj, Failed):
                res = (obj, model)
            else:
                res = apply(obj, model, hist[-1])
        if len(cache) < 20000:
            cache[hist] = res
        return res

    def canon(res):
        obj, model = res
        if isinstance(obj, Failed):
            return ("FAILED", obj.exc[0], obj.action, model.key())
        return model.key()

    def actions(res):
        obj, model = res
        if isinstance(obj, Failed):
            return []
        return enabled(model)

    def on_state(res, hist, key):
        obj, model = res
        case = {"start": [cls, ns, dt, list(flags)], "names": list(names), "zero": zero, "history": [list(a) for a in hist]}
        r.case(explorer.digest(case), nontrivial=len(hist) > 0)
        if isinstance(obj, Failed):
            a = obj.action
            r.violation(f"C16/{cls}/raises/{a[0]}{'-' + str(a[1]) if a[0] == 'dict' else ''}/{obj.exc[0]}/{obj.exc[1]}", obj.exc, case)
            return
        last = hist[-1][0] if hist else "start"
        for suffix, detail in compare(obj, model):
            r.violation(f"C16/{cls}/{suffix}/after-{last}", detail, case)
        r.outcomes.add(explorer.digest(key))

    def on_transition(k, a, nk):
        r.states.add(explorer.digest(k))
        r.states.add(explorer.digest(nk))
        r.transitions.add((explorer.digest(k), explorer.digest(a), explorer.digest(nk)))

    res = B.bfs([()], build, actions, canon, on_state, depth, bisim=True, on_transition=on_transition)
    if res["bisim_mismatches"]:
        if not r.violations:
            raise B.BisimulationError(res["bisim_mismatches"][0])
        r.count("bisimulation_mismatches_explained_by_violations", len(res["bisim_mismatches"]))
    r.count("bfs_runs")
    r.count("histories", res["histories"])
    r.count("bisim_checked_states", res["bisim_checked"])
    if not res["fixpoint"]:
        r.count("depth_bound_reached")
    r.sample({"start": [cls, ns, dt, list(flags)], "names": list(names), "example_history": [["select", "idx-rev"], ["partition-concat", 1], ["pickle"]],
              "states": res["states"], "transitions": res["transitions"]})
    return r.dump()


def run_mixed_concat(arg):
    """Pieces that do not carry the same per-particle fields (one was drawn from a flow and has log_q, the other was not;
    one has been evaluated, the other not yet): in the joined object every per-particle field is either absent or has
    one entry per row, and entry i belongs to row i - for every pair of field subsets, in both orders, 2 and 3 pieces."""
    cls, ns, dt = arg
    from aspire import samples as S

    r = Report()
    C = getattr(S, cls)
    all_flags = list(itertools.product((True, False), repeat=3))
    fields = ("log_likelihood", "log_prior", "log_q")
    for fa, fb in itertools.product(all_flags, repeat=2):
        if fa == fb:
            continue  # the BFS joins like with like
        for third in (None, fa):
            a, _ = start(cls, ns, dt, fa, ("b", "a"))
            b, _ = start(cls, ns, dt, fb, ("b", "a"))
            pieces = [a, b[1:3]] if third is None else [a[:2], b, a[2:]]
            flagsets = [fa, fb] if third is None else [fa, fb, fa]
            rows = list(range(N0)) + [1, 2] if third is None else [0, 1] + list(range(N0)) + [2, 3]
            case = {"mixed_concat": True, "cls": cls, "ns": ns, "dtype": dt, "flags": [list(f) for f in flagsets]}
            r.case(explorer.digest(["mixed", cls, ns, dt, fa, fb, third is None]), nontrivial=True)
            try:
                out = C.concatenate(pieces)
            except Exception as e:  # refusing to join them is a legitimate answer (nothing misaligned is produced)
                r.count("mixed-concat-refused:" + type(e).__name__)
                continue
            x = tonp(out.x)
            if x.shape[0] != len(rows) or not np.array_equal(x[:, 0], np.asarray(rows, dtype=float) + 1):
                r.violation(f"C16/mixed-concat/rows/{cls}/{ns}", {"x": x.tolist(), "expected_rows": rows}, case)
                continue
            for j, f in enumerate(fields):
                v = getattr(out, f)
                if v is None:
                    continue
                v = tonp(v)
                want = np.asarray(rows, dtype=float) + 100 * (j + 1)
                if v.shape != (len(rows),):
                    r.violation(f"C16/mixed-concat/field-shorter-than-rows/{f}/{cls}/{ns}", {"len_x": len(rows), "len_field": list(v.shape)}, case)
                elif not all(fl[j] for fl in flagsets):
                    r.violation(f"C16/mixed-concat/field-invented/{f}/{cls}/{ns}", {"field": v.tolist()}, case)
                elif not np.array_equal(v, want):
                    r.violation(f"C16/mixed-concat/field-misaligned/{f}/{cls}/{ns}", {"field": v.tolist(), "expected": want.tolist()}, case)
    return r.dump()


def run(tier, seed, workers):
    rep = Report()
    depth = 3 if tier == "quick" else 4
    mixed = [(cls, ns, dt) for cls in ("BaseSamples", "Samples", "SMCSamples") for ns in ("numpy", "torch", "jax")
             for dt in (("float64",) if tier == "quick" else ("float64", "float32"))]
    for d in pmap("checks.c16", "run_mixed_concat", mixed, workers):
        rep.merge(d)
    jobs = []
    for cls in ("BaseSamples", "Samples", "SMCSamples"):
        for ns in ("numpy", "torch", "jax"):
            for dt in ("float64", "float32"):
                for flags in itertools.product((True, False), repeat=3):
                    if tier == "quick" and ns == "jax" and flags not in ((True, True, True), (True, False, True), (False, False, False)):
                        continue
                    if tier == "quick" and ns == "torch" and dt == "float32" and sum(flags) in (1, 2):
                        continue
                    d = depth if ns != "jax" or tier == "thorough" else min(depth, 3)
                    # column names in an order that differs from their lexicographic order (dict / group layouts
                    # are keyed by name); the sorted spelling as well where it is cheap
                    jobs.append((cls, ns, dt, flags, d, ("b", "a")))
                    if ns == "numpy" and (tier == "thorough" or dt == "float64"):
                        jobs.append((cls, ns, dt, flags, d, ("a", "b")))
                    if cls == "Samples" and not flags[2] and (ns == "numpy" or tier == "thorough") and flags[:2] in ((True, True), (False, False)):
                        jobs.append((cls, ns, dt, flags, d, ("b", "a"), "given"))
                    if cls == "SMCSamples" and (ns != "jax" or tier == "thorough") and flags in ((True, True, True), (False, False, False)):
                        jobs.append((cls, ns, dt, flags, d, ("b", "a"), True))
    jobs.sort(key=lambda j: (j[1] != "jax", j[1] != "torch"))
    for d in pmap("checks.c16", "run_start", jobs, workers):
        rep.merge(d)
    rep.exhaustive = True
    return rep


def extra_coverage(rep):
    return {"traces_validated_against_impl": rep.counters.get("histories", 0),
            "explanation": "every BFS transition is an execution of the real aspire methods; the reference model is compared in every state"}


def replay(case):
    r = Report()
    if case.get("mixed_concat"):
        r.merge(run_mixed_concat((case["cls"], case["ns"], case["dtype"])))
        return r
    cls, ns, dt, flags = case["start"]
    obj, model = start(cls, ns, dt, tuple(flags), case.get("names", ["a", "b"]), case.get("zero", False))
    r.case("replay")
    for a in case["history"]:
        a = tuple(a)
        obj, model = apply(obj, model, a)
        if isinstance(obj, Failed):
            r.violation(f"C16/{cls}/raises/{a[0]}/{obj.exc[0]}/{obj.exc[1]}", obj.exc, case)
            return r
    for suffix, detail in compare(obj, model):
        r.violation(f"C16/{cls}/{suffix}", detail, case)
    return r
