"""C14 A checkpoint file stays self-consistent under any sequence of operations.

Explicit-state BFS whose transitions call the real Aspire methods on one real
HDF5 file: fit (data A/B, with/without overwrite, explicit path or path from the
active context), sample (importance / SMC; explicit path, context path, no
path), enter / leave / nest auto_checkpoint, resume_from_file (replaces the
instance)."""
import os
import pickle
import shutil
import tempfile

import h5py
import numpy as np

from env import get_xp, tonp
from env import resume_harness as rh
from env.targets import InjectedFault, Monitor
from mc import bfs as B
from mc import explorer
from mc.par import pmap
from mc.report import Report

LEVEL = "model_checking"
RULE = ("BFS over operation sequences on one real Aspire instance + one real HDF5 file; alphabet: fit(A), fit(B), "
        "fit(B, overwrite=True) [explicit checkpoint_path, or path taken from the active auto_checkpoint context], "
        "sample(importance|smc) [explicit path | context | none], an SMC call interrupted by an exception from the user's likelihood right after "
        "it wrote a checkpoint (the user catches it and carries on) [explicit path | context], enter auto_checkpoint(file), leave it, resume_from_file; "
        "complete to depth 4 (quick) / 5 (thorough) from the empty state (split by the first two actions over the "
        "worker pool); abstract state = (config present + sampler_type, flow present, file-flow == memory-flow, "
        "checkpoint present + its sampler, checkpoint-log q reproduced by file flow / by memory flow, stack of context "
        "defaults incl. saved_* flags, resume priming); invariant evaluated in every state with a checkpoint")
ASSUMPTIONS = [
    "tiny real zuko flow (default architecture, 1 training epoch); 4 particles; deterministic stub kernel",
    "flow equality is decided numerically on the checkpoint's particles (log-density difference > 1e-4 = different proposal)",
]

PARAMS = ["a", "b"]
TOL = 1e-4


def data(which):
    rng = np.random.default_rng(1 if which == "A" else 2)
    if which == "A":
        return np.stack([rng.normal(0.0, 1.0, 48), rng.normal(1.0, 0.7, 48)], axis=1)
    return np.stack([rng.normal(2.5, 0.4, 48), rng.normal(-1.5, 1.6, 48)], axis=1)


class CrashMonitor(Monitor):
    """Raises at the first user-callable call made after ``armed()`` became true (used to interrupt a sampling call
    right after it has written a checkpoint)."""

    armed = None

    def _tick(self, kind):
        if self.armed is not None and self.armed():
            raise InjectedFault(f"injected fault after a checkpoint was written ({kind})")
        return super()._tick(kind)


def checkpoint_stamp(path):
    """Digest of the stored checkpoint payload (None if there is none / the file is being written)."""
    import hashlib

    if not os.path.exists(path):
        return None
    try:
        with h5py.File(path, "r") as f:
            if "checkpoint" in f and "state" in f["checkpoint"]:
                return hashlib.sha1(f["checkpoint"]["state"][...].tobytes()).hexdigest()
    except OSError:
        return "busy"
    return None


class World:
    def __init__(self, tmpdir):
        import _kernel
        import orng
        from aspire import Aspire

        self.path = os.path.join(tmpdir, "state.h5")
        if os.path.exists(self.path):
            os.remove(self.path)
        p = rh.problem("none")
        self.p = p
        _kernel.reset(mode="det", scale=0.5, horizon=100)
        orng.CONFIG["factory"] = None
        orng.CONFIG["seed"] = 3
        self.mon = CrashMonitor(p["like"], p["prior"], "numpy", keep_points=False)
        self.a = Aspire(log_likelihood=self.mon.log_likelihood, log_prior=self.mon.log_prior, dims=2, parameters=PARAMS,
                        prior_bounds=None, bounded_to_unbounded=False, xp=get_xp("numpy"), flow_backend="zuko",
                        hidden_features=[8], transforms=1)
        self.config_writer = None  # which kind of call wrote /aspire_config last (harness-side wrapper around the instance's save_config)
        self.current = None
        self._watch_config_writes()
        self.stack = []  # context managers entered
        self.error = None
        self.fitted = False
        # provenance used by the violation signatures (must be part of the abstract state, otherwise two
        # histories with different root causes would be merged and only one cause reported)
        self.last_fit_overwrite = None
        self.overwriting_fit_after_checkpoint = False
        self.resumed_instance = False
        self.last_file_sampler = None  # class of the sampler run by the last sampling call that targeted the file
        self.crashes = 0
        # observed, not inferred from the action names: a call on a resumed instance may run the checkpoint's sampler
        # although another one was named
        self.fit_before_checkpoint = None  # overwrite flag of the last fit that preceded the call that wrote the checkpoint last
        self.checkpoint_writes = 0

    def _watch_config_writes(self):
        inner = self.a.save_config

        def save_config(*args, **kwargs):
            self.config_writer = self.current
            return inner(*args, **kwargs)

        self.a.save_config = save_config

    # --- actions -------------------------------------------------------
    def do(self, act):
        import torch
        from aspire import Aspire
        from aspire.samples import Samples

        kind = act[0]
        self.current = kind if kind != "sample" else f"sample:{act[1]}"
        stamp_before = checkpoint_stamp(self.path)
        fit_flag_before = self.last_fit_overwrite
        try:
            self._do(act)
        finally:
            if checkpoint_stamp(self.path) != stamp_before:
                self.checkpoint_writes += 1
                self.fit_before_checkpoint = fit_flag_before
                self.overwriting_fit_after_checkpoint = False

    def _do(self, act):
        import torch
        from aspire import Aspire
        from aspire.samples import Samples

        kind = act[0]
        try:
            if kind == "fit":
                which, overwrite, how = act[1], act[2], act[3]
                s = Samples(x=data(which), parameters=PARAMS, xp=get_xp("numpy"))
                torch.manual_seed(0)
                kw = {"checkpoint_path": self.path} if how == "path" else {}
                self.a.fit(s, n_epochs=1, batch_size=48, lr=3e-2, overwrite=overwrite, **kw)  # large lr: every fit changes the density by far more than TOL
                self.fitted = True
                self.last_fit_overwrite = overwrite
                if overwrite:
                    self.overwriting_fit_after_checkpoint = True
            elif kind == "sample":
                sampler, how = act[1], act[2]
                kw = {"checkpoint_path": self.path} if how == "path" else {}
                targets_file = how == "path" or getattr(self.a, "_checkpoint_defaults", None) is not None
                torch.manual_seed(1)
                if sampler == "smc":
                    self.a.sample_posterior(n_samples=4, sampler="smc", n_steps=1, adaptive=False,
                                            sampler_kwargs={"n_steps": 1}, preconditioning="none", **kw)
                    self.overwriting_fit_after_checkpoint = False
                else:
                    self.a.sample_posterior(n_samples=4, sampler="importance", **kw)
                if targets_file:
                    # the sampler that actually ran (a primed resumed instance turns the default name into the checkpoint's sampler)
                    self.last_file_sampler = type(self.a.sampler).__name__ if self.a.sampler is not None else SAMPLER_CLASS[sampler]
            elif kind == "sample-crash":
                # an SMC run with two temperatures that is interrupted (exception from the user's likelihood / prior)
                # at the first user call after it has written a checkpoint; the user catches the exception and goes on
                how = act[1]
                kw = {"checkpoint_path": self.path} if how == "path" else {}
                torch.manual_seed(1)
                before = checkpoint_stamp(self.path)
                self.mon.armed = lambda: checkpoint_stamp(self.path) not in (before, "busy")
                try:
                    self.a.sample_posterior(n_samples=4, sampler="smc", n_steps=2, adaptive=False,
                                            sampler_kwargs={"n_steps": 1}, preconditioning="none", **kw)
                except InjectedFault:
                    self.crashes += 1
                finally:
                    self.mon.armed = None
                self.overwriting_fit_after_checkpoint = False
                self.last_file_sampler = "MiniPCNSMC"
            elif kind == "enter":
                cm = self.a.auto_checkpoint(self.path, every=1)
                cm.__enter__()
                self.stack.append(cm)
            elif kind == "leave":
                cm = self.stack.pop()
                cm.__exit__(None, None, None)
            elif kind == "resume":
                self.a = Aspire.resume_from_file(self.path, log_likelihood=self.mon.log_likelihood, log_prior=self.mon.log_prior)
                self._watch_config_writes()
                self.stack = []
                self.fitted = True
                self.resumed_instance = True
            elif kind == "resume-sample":
                # the documented continuation of a resumed instance: no sampler argument (optionally inside a context / with a path)
                how = act[1] if len(act) > 1 else "none"
                kw = {"checkpoint_path": self.path} if how == "path" else {}
                torch.manual_seed(1)
                self.a.sample_posterior(n_steps=1, adaptive=False, sampler_kwargs={"n_steps": 1}, preconditioning="none", **kw)
                self.last_file_sampler = SAMPLER_CLASS.get(getattr(self.a, "_last_sampler_type", None), self.last_file_sampler)
            else:
                raise ValueError(act)
        except Exception as e:
            from env import exc_site

            self.error = (type(e).__name__, exc_site(e), str(e)[:200], list(act))

    # --- observation ---------------------------------------------------
    def observe(self):
        from aspire.flows.torch.flows import ZukoFlow

        o = {"config": None, "flow": False, "ckpt": None, "file_eq_mem": None, "ckpt_file": None, "ckpt_mem": None}
        file_flow = None
        state = None
        if os.path.exists(self.path):
            with h5py.File(self.path, "r") as f:
                if "aspire_config" in f:
                    st = f["aspire_config"].get("sampler_type")
                    o["config"] = "no-sampler" if st is None else (st[()].decode() if isinstance(st[()], bytes) else str(st[()]))
                o["flow"] = "flow" in f
                if "checkpoint" in f and "state" in f["checkpoint"]:
                    state = pickle.loads(f["checkpoint"]["state"][...].tobytes())
                    o["ckpt"] = state.get("sampler")
                if o["flow"]:
                    try:
                        file_flow = ZukoFlow.load(f, "flow")
                    except Exception as e:
                        o["flow"] = f"unloadable:{type(e).__name__}"
        mem = self.a.flow if self.fitted else None
        probe = data("A")[:6] * 0.5 + 0.3
        if file_flow is not None and mem is not None:
            d = np.abs(tonp(file_flow.log_prob(probe)) - tonp(mem.log_prob(probe))).max()
            o["file_eq_mem"] = bool(d < TOL)
        if state is not None:
            x = tonp(state["samples"].x)
            q = tonp(state["samples"].log_q).astype(np.float64)
            if file_flow is not None:
                o["ckpt_file"] = bool(np.abs(tonp(file_flow.log_prob(x)).astype(np.float64) - q).max() < TOL)
                o["ckpt_file_gap"] = float(np.abs(tonp(file_flow.log_prob(x)).astype(np.float64) - q).max())
            if mem is not None:
                o["ckpt_mem"] = bool(np.abs(tonp(mem.log_prob(x)).astype(np.float64) - q).max() < TOL)
        return o

    def key(self):
        o = self.observe()
        d = getattr(self.a, "_checkpoint_defaults", None)
        levels = []
        # the chain of defaults: active one first, then the ones saved by the entered contexts is not
        # reachable from outside; the number of entered contexts and the active flags decide the future
        dv = None if d is None else (d.get("save_config"), d.get("saved_config"), d.get("saved_flow"))
        primed = (hasattr(self.a, "_resume_from_default"), getattr(self.a, "_resume_sampler_type", None))
        return (o["config"], o["flow"], o["file_eq_mem"], o["ckpt"], o["ckpt_file"], o["ckpt_mem"], len(self.stack), dv,
                primed, self.fitted, getattr(self.a, "_last_sampler_type", None), self.error[0] if self.error else None,
                self.last_fit_overwrite, self.overwriting_fit_after_checkpoint, self.resumed_instance, self.last_file_sampler,
                self.config_writer, self.fit_before_checkpoint)


SAMPLER_CLASS = {"smc": "MiniPCNSMC", "minipcn_smc": "MiniPCNSMC", "emcee_smc": "EmceeSMC", "importance": "ImportanceSampler"}


def cause(w, o):
    """Which observed events explain a file flow that does not reproduce the checkpoint's log q (so that different root
    causes get different signatures): the fit that preceded the call which wrote the checkpoint last, and whether an
    overwriting fit came after it."""
    if w.checkpoint_writes == 0:
        return "no-checkpoint-written-in-history"
    if o["ckpt_mem"] and not o["file_eq_mem"]:
        return "stale-file-flow/last-fit-before-checkpoint:overwrite=" + ("none" if w.fit_before_checkpoint is None else str(w.fit_before_checkpoint))
    if o["file_eq_mem"] and not o["ckpt_mem"]:
        return "file-flow-replaced-after-checkpoint/by-fit:overwrite=" + ("True" if w.overwriting_fit_after_checkpoint else "False")
    return "other"


def invariant(w, hist=()):
    out = []
    o = w.observe()
    if o["ckpt"] is None:
        return out, o
    if o["flow"] is not True:
        out.append((f"C14/checkpoint-without-usable-flow/{o['flow']}", o))
    elif o["ckpt_file"] is False:
        rel = f"file{'==' if o['file_eq_mem'] else '!='}memory,checkpoint{'==' if o['ckpt_mem'] else '!='}memory"
        out.append((f"C14/file-flow-does-not-reproduce-checkpoint-logq/{rel}/{cause(w, o)}", o))
    if o["config"] is None:
        out.append(("C14/checkpoint-without-config", o))
    else:
        cls = SAMPLER_CLASS.get(o["config"], o["config"])
        if cls != o["ckpt"]:
            via = "after-resume_from_file" if any(tuple(a)[0] == "resume" for a in hist) else "no-resume"
            # which of the two artefacts is the stale one: the last sampling call that targeted the file ran w.last_file_sampler
            last = w.last_file_sampler
            stale = "stale-checkpoint" if cls == last and o["ckpt"] != last else "stale-config" if o["ckpt"] == last else "neither-of-last-call"
            out.append((f"C14/config-names-other-sampler/config={o['config']},checkpoint={o['ckpt']}/{via}/{stale}/config-written-by={w.config_writer}", o))
    return out, o


def enabled(w):
    if w.error is not None:
        return []
    acts = []
    in_ctx = len(w.stack) > 0 or getattr(w.a, "_checkpoint_defaults", None) is not None
    hows = ["path"] + (["ctx"] if in_ctx else [])
    for how in hows:
        acts.append(("fit", "A", False, how))
        acts.append(("fit", "B", False, how))
        acts.append(("fit", "B", True, how))
    if w.fitted:
        for how in hows + ([] if in_ctx else ["none"]):  # inside a context a call without a path is the "ctx" call
            acts.append(("sample", "smc", how))
            acts.append(("sample", "importance", how))
        for how in hows:
            acts.append(("sample-crash", how))
    if len(w.stack) < 2:
        acts.append(("enter",))
    if w.stack:
        acts.append(("leave",))
    o = w.observe()
    if o["config"] is not None and o["flow"] is True and not w.stack:
        acts.append(("resume",))
    if hasattr(w.a, "_resume_from_default"):
        acts.append(("resume-sample",))
        for how in hows:
            acts.append(("resume-sample", how))
    return acts


def run_bfs(arg):
    prefix, depth = arg
    r = Report()
    tmpdir = tempfile.mkdtemp(prefix="c14_")
    try:
        def build(hist):
            w = World(tmpdir)
            for a in hist:
                w.do(a)
                if w.error is not None:
                    break
            return w

        def on_state(w, hist, key):
            case = {"history": [list(a) for a in hist]}
            r.case(explorer.digest(case), nontrivial=len(hist) >= 2)
            if w.error is not None:
                r.violation(f"C14/operation-raises/{w.error[3][0]}/{w.error[0]}/{w.error[1]}", w.error, case)
                return
            v, o = invariant(w, hist)
            for sig, detail in v:
                r.violation(sig, detail, case)
            r.outcomes.add(explorer.digest(key))
            if len(hist) >= 3:
                r.sample(case, limit=40)

        def on_transition(k, a, nk):
            r.states.add(explorer.digest(k))
            r.states.add(explorer.digest(nk))
            r.transitions.add((explorer.digest(k), explorer.digest(a), explorer.digest(nk)))

        # a state in which the invariant is already violated is terminal: everything reachable from it inherits
        # the same inconsistency and would only be reported again under other relation tuples
        res = B.bfs([tuple(prefix)], build, enabled, lambda w: w.key(), on_state, depth, bisim=True, on_transition=on_transition,
                    terminal=lambda w: w.error is not None or bool(invariant(w)[0]))
        if res["bisim_mismatches"]:
            if not r.violations:
                raise B.BisimulationError(res["bisim_mismatches"][0])
            r.count("bisimulation_mismatches_explained_by_violations", len(res["bisim_mismatches"]))
        r.count("histories", res["histories"])
        r.count("bisim_checked_states", res["bisim_checked"])
        r.count("bfs_runs")
        if not res["fixpoint"]:
            r.count("depth_bound_reached")
    finally:
        shutil.rmtree(tmpdir, ignore_errors=True)
    return r.dump()


def first_level():
    return [[("fit", "A", False, "path")], [("fit", "B", True, "path")], [("enter",)]]


def run(tier, seed, workers):
    rep = Report()
    # split the search by the first two actions so that 16 workers share it; every sub-search is a
    # complete BFS of the remaining depth (states reached in several sub-searches are explored redundantly)
    tmp = tempfile.mkdtemp(prefix="c14p_")
    try:
        w0 = World(tmp)
        prefixes = []
        for a in enabled(w0):
            w1 = World(tmp)
            w1.do(a)
            for b in enabled(w1):
                prefixes.append([a, b])
    finally:
        shutil.rmtree(tmp, ignore_errors=True)
    depth = 2 if tier == "quick" else 3
    jobs = [([], 2)] + [(p, depth) for p in prefixes]
    for d in pmap("checks.c14", "run_bfs", jobs, workers):
        rep.merge(d)
    rep.notes.append(f"{len(prefixes)} two-action prefixes, each continued by a complete BFS of depth {depth}")
    return rep


def extra_coverage(rep):
    return {"traces_validated_against_impl": rep.counters.get("histories", 0),
            "explanation": "every BFS transition calls the real Aspire methods on a real HDF5 file"}


def replay(case):
    r = Report()
    tmpdir = tempfile.mkdtemp(prefix="c14r_")
    try:
        w = World(tmpdir)
        for a in case["history"]:
            w.do(tuple(a))
        r.case("replay")
        if w.error is not None:
            r.violation(f"C14/operation-raises/{w.error[3][0]}/{w.error[0]}/{w.error[1]}", w.error, case)
        else:
            for sig, detail in invariant(w, [tuple(a) for a in case["history"]])[0]:
                r.violation(sig, detail, case)
    finally:
        shutil.rmtree(tmpdir, ignore_errors=True)
    return r
