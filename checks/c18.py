"""C18 The diagnostic history is a faithful record of the run.

Invariant evaluated on the history produced by the real sampler in (a) every
execution of a deviation-bounded exploration of the SMC loop over schedule
options and (b) every run resumed from every checkpoint of crash/resume
histories (fault enumeration harness of C11)."""
import pickle

from env import resume_harness as rh
from env.schedule_harness import run_execution
from mc import explorer
from mc.par import pmap
from mc.report import Report
from oracles.smc_oracles import check_history

LEVEL = "exploration"
RULE = ("(a) all executions with <=2 environment deviations (population menu x resampling tuples) of the real SMC loop for "
        "a grid of schedule options, samplers and checkpoint cadences; (b) for a grid of continuous 2-D runs, the run resumed "
        "from every checkpoint (and from the checkpoint left by a fault at every call index, thorough) is checked as well. "
        "Invariant: every populated series has one entry per iteration; sample_history = initial population + one per "
        "iteration with matching temperatures; recorded beta/ESS/ESS-at-1/log-ratio equal their definitions recomputed with "
        "mpmath from the neighbouring stored populations; plus coarse fixed schedules (1-3 steps, N=12) on a sharply peaked likelihood, whose steps collapse the sample efficiency below 0.1. non-trivial = run with >=2 iterations or a resumed run")
ASSUMPTIONS = [
    "stub kernels (teleport / random-walk / deterministic sweep); mcmc_autocorr is only populated by emcee_smc",
    "populations with N<=8 particles",
]


def explore_cfg(cfg):
    r = Report()
    n = 0
    for ex in explorer.explore(lambda ctx: run_execution(ctx, cfg), bound=cfg.get("bound", 2)):
        rec = ex.result
        n += 1
        h = rec["history"]
        r.case(explorer.digest([cfg, ex.choices]), nontrivial=bool(h and len(h["beta"]) >= 2))
        if rec["exception"] is not None:
            continue  # schedule failures are C06's business
        r.outcomes.add(explorer.digest(h["beta"]))
        for sig, detail in check_history(rec):
            r.violation(sig, detail, {"kind": "explore", "cfg": cfg, "choices": ex.choices})
        if cfg["sampler"] == "emcee_smc" and len(rec["history"].get("mcmc_acceptance", [])) != len(h["beta"]):
            pass
    r.sample({"kind": "explore", "cfg": cfg, "executions": n})
    return r.dump()


def to_rec(run):
    h = run.history
    hh = dict(h)
    hh["sample_history"] = [
        {"beta": s["beta"], "x": s["x"].tolist(), "L": s["L"].tolist(), "P": s["P"].tolist(), "Q": s["Q"].tolist(), "dtype": s.get("dtype")}
        for s in h["sample_history"]
    ]
    return {"history": hh, "exception": run.exception, "cfg": run.cfg}


def extra_series(run, sampler):
    out = []
    h = run.history
    n = len(h["beta"])
    if sampler == "emcee_smc" and not h["mcmc_autocorr"] and n:
        out.append(("C18/series-length/mcmc_autocorr/empty", {"iterations": n}))
    return out


def resume_cfg(cfg):
    r = Report()
    tier = cfg.pop("_tier", "quick")
    R = rh.run(cfg)
    if R.exception is not None:
        r.case(explorer.digest(["ref", cfg]))
        r.violation(f"C18/run-raises/{R.exception[0]}/{R.exception[1]}", R.exception, {"kind": "resume", "cfg": cfg})
        return r.dump()
    for sig, detail in check_history(to_rec(R)) + extra_series(R, cfg["sampler"]):
        r.violation(sig, detail, {"kind": "resume", "cfg": cfg, "stage": "reference"})
    r.case(explorer.digest(["ref", cfg]), nontrivial=len(R.history["beta"]) >= 2)
    payloads = [b for _, b in R.sink]
    if tier == "thorough":
        # every crash point: the payload a fault leaves behind is the last one written before it
        for k in range(R.n_calls):
            F = rh.run(cfg, fault_at=k)
            r.case(explorer.digest([cfg, "fault", k]), nontrivial=bool(F.sink))
            if F.sink and F.sink[-1][1] not in payloads:
                payloads.append(F.sink[-1][1])
    # the live dictionary the callback received, used after a fault at every crash point
    for k in range(0, R.n_calls, 1 if tier == "thorough" else 2):
        F = rh.run(cfg, fault_at=k)
        if not F.live:
            continue
        rr = rh.run(cfg, resume_from=F.live[-1])
        case = {"kind": "resume", "cfg": cfg, "crash_point": k, "route": "live-dict"}
        r.case(explorer.digest([cfg, "live", k]), nontrivial=True)
        if rr.exception is not None:
            r.violation(f"C18/resume-raises/{rr.exception[0]}", rr.exception, case)
            continue
        for sig, detail in check_history(to_rec(rr), resumed=True) + extra_series(rr, cfg["sampler"]):
            r.violation(sig, detail, case)
    for j, payload in enumerate(payloads):
        for route in ("bytes", "dict"):
            src = payload if route == "bytes" else pickle.loads(payload)
            rr = rh.run(cfg, resume_from=src)
            case = {"kind": "resume", "cfg": cfg, "checkpoint_index": j, "route": route}
            r.case(explorer.digest([cfg, j, route]), nontrivial=True)
            if rr.exception is not None:
                r.violation(f"C18/resume-raises/{rr.exception[0]}", rr.exception, case)
                continue
            r.outcomes.add(explorer.digest(rr.history["beta"]))
            for sig, detail in check_history(to_rec(rr), resumed=True) + extra_series(rr, cfg["sampler"]):
                r.violation(sig, detail, case)
    r.sample({"kind": "resume", "cfg": cfg, "checkpoints": len(payloads)})
    return r.dump()


def early_crash_cfg(cfg):
    """A run checkpointing into a file dies before its first checkpoint; the user calls sample(resume_from=file) again.
    Either that is refused (nothing to resume) or the run it performs keeps a faithful record."""
    import os
    import shutil
    import tempfile

    r = Report()
    tmp = tempfile.mkdtemp(prefix="c18e_")
    try:
        for k in (1, 3, 5, 8):
            path = os.path.join(tmp, f"early{k}.h5")
            F = rh.run(cfg, fault_at=k, file_path=path)
            case = {"early_crash": True, "cfg": cfg, "fault_at": k}
            r.case(explorer.digest(case), nontrivial=True)
            if F.exception is None or F.exception[0] != "InjectedFault":
                continue
            import h5py

            has_ck = os.path.exists(path) and "checkpoint" in h5py.File(path, "r")
            if has_ck:
                continue  # not an early crash for this cadence
            for variant, exists in (("file-without-checkpoint", os.path.exists(path)), ("no-file", False)):
                p2 = path if exists else os.path.join(tmp, f"absent{k}.h5")
                rr = rh.run(cfg, resume_from=p2, file_path=p2)
                if rr.exception is not None:
                    r.count("observation:resume-from-a-file-without-checkpoint-is-refused")
                    continue
                for sig, detail in check_history(to_rec(rr)) + extra_series(rr, cfg["sampler"]):
                    r.violation(sig + "/after-resume-from-a-file-without-checkpoint", detail, dict(case, variant=variant))
    finally:
        shutil.rmtree(tmp, ignore_errors=True)
    r.sample({"early_crash": True, "cfg": cfg})
    return r.dump()


def run(tier, seed, workers):
    from checks import c06, c11

    rep = Report()
    cfgs = []
    for c in c06.configs(tier):
        if c.get("bound") == 0:
            if c["opts"]["n_steps"] % 5:
                continue
        c = dict(c)
        c.setdefault("bound", 2)
        cfgs.append(c)
    # with a checkpoint callback and n_final_samples
    cfgs.append({"N": 4, "opts": {"adaptive": True, "target_efficiency": 0.9}, "sampler": "smc", "checkpoint_every": 1, "bound": 2})
    cfgs.append({"N": 4, "opts": {"adaptive": False, "n_steps": 3, "n_final_samples": 6}, "sampler": "emcee_smc", "checkpoint_every": 2, "bound": 2})
    for d in pmap("checks.c18", "explore_cfg", cfgs, workers):
        rep.merge(d)
    rep.count("explored_option_configs", len(cfgs))
    rcfgs = c11.configs(tier, seed)
    # coarse fixed schedules on a sharply peaked likelihood: steps whose sample efficiency collapses (the loop's low-efficiency branch)
    for sampler in ("smc", "emcee_smc"):
        for n_steps in (1, 2, 3):
            rcfgs.append({"sampler": sampler, "N": 12, "opts": {"adaptive": False, "n_steps": n_steps}, "cadence": 1, "n_final": None if n_steps != 2 else 16,
                          "precond": "peaked", "seed": 0, "_tier": tier})
    for d in pmap("checks.c18", "resume_cfg", rcfgs, workers, chunksize=2):
        rep.merge(d)
    rep.count("resume_configs", len(rcfgs))
    ecfgs = [{"sampler": sampler, "N": 8, "opts": {"adaptive": True, "target_efficiency": 0.8}, "cadence": 3, "n_final": None, "precond": "none", "seed": 0}
             for sampler in ("smc", "emcee_smc")]
    for d in pmap("checks.c18", "early_crash_cfg", ecfgs, workers):
        rep.merge(d)
    return rep


def _replay_early(case):
    r = Report()
    r.merge(early_crash_cfg(case["cfg"]))
    return r


def replay(case):
    if case.get("early_crash"):
        return _replay_early(case)
    from checks.c06 import _fix

    r = Report()
    if case.get("kind") == "explore":
        cfg = _fix(case["cfg"])
        ex = explorer.run_one(lambda ctx: run_execution(ctx, cfg), case["choices"])
        r.case("replay")
        for sig, detail in check_history(ex.result):
            r.violation(sig, detail, case)
        return r
    cfg = dict(case["cfg"])
    te = cfg["opts"].get("target_efficiency")
    if isinstance(te, list):
        cfg["opts"]["target_efficiency"] = tuple(te)
    r.merge(resume_cfg(dict(cfg, _tier="quick")))
    return r
