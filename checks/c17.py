"""C17 Prior is evaluated before likelihood on the same points; evaluations are counted.

Temporal monitor around the user's callables in whole runs of all six
samplers (grid of preconditioning x namespace x options, incl. resumed runs and
final enlargement) and in every execution of explored SMC runs."""
import itertools

import numpy as np

from env import any_run
from env import resume_harness as rh
from mc import explorer
from mc.par import pmap
from mc.report import Report

LEVEL = "exploration"
RULE = ("sampler {importance, emcee, minipcn, smc, emcee_smc, blackjax_smc(rwmh)} x preconditioning {none, periodic, "
        "logit+affine, probit} x namespace x seeds x {n_final_samples, resumed from every checkpoint}; plus every execution "
        "(<=1 environment deviation) of the explored SMC loop over schedule options. At every likelihood call the received "
        "object carries log_prior equal to the prior at exactly those coordinates; at the end Aspire.n_likelihood_evaluations "
        "== sum of points over the calls of that run; every sampler also with a prior that varies over its support (a log-prior carried over from other points is then another number). one evaluation = one whole run; non-trivial = run with >= 3 likelihood calls")
ASSUMPTIONS = [
    "stub kernels; for blackjax_smc the likelihood is called under JAX tracing, where only presence/pairing is observable; "
    "the number of points evaluated inside the compiled kernel is N x (n_steps+1) per mutation by construction of random-walk MH",
]


def run_one(cfg):
    r = Report()
    case = {"cfg": cfg}
    if cfg["sampler"] == "blackjax_smc":
        from env.jax_env import run_blackjax

        R = run_blackjax(cfg)
        r.case(explorer.digest(case), nontrivial=True)
        if R.exception is not None:
            r.violation(f"C17/blackjax_smc/run-raises/{R.exception[0]}/{R.exception[1]}", R.exception, case)
            return r.dump()
        for v in R.mon.violations:
            r.violation(f"C17/blackjax_smc/{v[0]}/{v[1]}", v, case)
        iters = len(R.history["beta"])
        n_kernel = 0
        nfinal = cfg.get("n_final")
        per = 2 + 1  # n_steps + init
        n_kernel = iters * cfg["N"] * per + (nfinal * per if nfinal and nfinal != cfg["N"] else 0)
        reported = R.aspire.n_likelihood_evaluations
        if reported != R.mon.concrete_like_points + n_kernel:
            if reported == R.mon.concrete_like_points + R.mon.traced_like_calls:
                r.violation("C17/count/blackjax_smc/kernel-evaluations-counted-once-per-trace",
                            {"reported": reported, "outside_kernel": R.mon.concrete_like_points, "inside_kernel_points": n_kernel,
                             "traces": R.mon.traced_like_calls}, case)
            else:
                r.violation("C17/count/blackjax_smc/other", {"reported": reported, "concrete": R.mon.concrete_like_points,
                                                             "kernel": n_kernel, "traces": R.mon.traced_like_calls}, case)
        r.sample(case)
        return r.dump()
    R = any_run.run_any(cfg)
    r.case(explorer.digest(case), nontrivial=R.mon.n_calls >= 3)
    if R.exception is not None:
        r.violation(f"C17/{cfg['sampler']}/run-raises/{R.exception[0]}/{R.exception[1] if len(R.exception) > 2 else ''}", R.exception, case)
        return r.dump()

    def verdict(run, stage):
        c = dict(case, stage=stage)
        kinds = sorted(set(v[0] for v in run.mon.violations))
        for k in kinds:
            first = next(v for v in run.mon.violations if v[0] == k)
            r.violation(f"C17/{cfg['sampler']}/{k}/{stage}", {"call_index": first[1], "n": len([v for v in run.mon.violations if v[0] == k])}, c)
        rep = run.aspire.n_likelihood_evaluations
        if rep != run.mon.n_like_points:
            r.violation(f"C17/count/{cfg['sampler']}/{stage}", {"reported": rep, "actual_points": run.mon.n_like_points}, c)
        r.outcomes.add((cfg["sampler"], run.mon.n_like_points))

    verdict(R, "fresh")
    if cfg["sampler"] in ("smc", "emcee_smc") and R.sink:
        seen = set()
        for it, payload in R.sink:
            if it in seen:
                continue
            seen.add(it)
            rr = any_run.run_any(cfg, resume_from=payload)
            r.case(explorer.digest([case, "resume", it]), nontrivial=True)
            if rr.exception is not None:
                r.violation(f"C17/{cfg['sampler']}/resume-raises/{rr.exception[0]}", rr.exception, dict(case, resumed_from=it))
                continue
            verdict(rr, "resumed")
    r.sample(case)
    return r.dump()


def run_explored(cfg):
    from env.schedule_harness import run_execution

    r = Report()
    for ex in explorer.explore(lambda ctx: run_execution(ctx, cfg), bound=1):
        rec = ex.result
        case = {"explored": True, "cfg": cfg, "choices": ex.choices}
        r.case(explorer.digest(case), nontrivial=rec["n_like_points"] > cfg["N"])
        if rec["exception"] is not None:
            continue
        for v in rec["monitor_violations"]:
            r.violation(f"C17/{cfg['sampler']}/{v[0]}/explored", v, case)
        if rec["n_like_points"] != rec["n_like_reported"]:
            r.violation(f"C17/count/{cfg['sampler']}/explored", {"reported": rec["n_like_reported"], "actual_points": rec["n_like_points"]}, case)
    r.sample({"explored": True, "cfg": cfg})
    return r.dump()


def run_faulted(cfg):
    """A run in which the user's likelihood / prior raises at call k (every k): the reported number still equals the number
    of points the likelihood was asked to evaluate, the failing batch included."""
    r = Report()
    R0 = any_run.run_any(cfg)
    case0 = {"faulted": True, "cfg": cfg}
    if R0.exception is not None:
        r.case(explorer.digest(case0))
        r.violation(f"C17/{cfg['sampler']}/run-raises/{R0.exception[0]}", R0.exception, case0)
        return r.dump()
    K = R0.mon.n_calls
    for k in range(K):
        case = dict(case0, fault_at=k)
        if cfg["sampler"] in ("importance", "emcee", "minipcn"):
            R = any_run.run_simple(dict(cfg, fault_at=k))
        else:
            R = any_run.run_any(cfg, fault_at=k)
        r.case(explorer.digest(case), nontrivial=True)
        rep = R.aspire.n_likelihood_evaluations
        if rep is None:
            continue  # the fault came before a sampler existed
        if rep != R.mon.n_like_asked:
            r.violation(f"C17/count/{cfg['sampler']}/after-a-failing-call", {"reported": rep, "asked": R.mon.n_like_asked, "fault_at": k}, case)
        r.outcomes.add((cfg["sampler"], "faulted", R.mon.n_like_asked))
    r.sample(case0)
    return r.dump()


def run_convert(arg):
    """Aspire.convert_to_samples(x, evaluate=True): prior first, then likelihood on the same points with the prior attached."""
    ns, given = arg
    from aspire import Aspire
    from env import get_xp
    from env import resume_harness as rh
    from env.flows import AnalyticFlow
    from env.targets import Monitor

    r = Report()
    case = {"convert_to_samples": True, "ns": ns, "given": given}
    r.case(explorer.digest(case), nontrivial=True)
    p = rh.problem("tight")
    mon = Monitor(p["like"], p["prior"], ns, keep_points=True)
    flow = AnalyticFlow(2, seed=5, xp_name=ns, **p["flow"])
    a = Aspire(log_likelihood=mon.log_likelihood, log_prior=mon.log_prior, dims=2, parameters=p["parameters"],
               prior_bounds=p["bounds"], flow=flow, xp=get_xp(ns))
    x, lq = flow.sample_and_log_prob(9)
    kw = {"log_q": lq}
    xp = get_xp(ns)
    if given == "prior":
        kw["log_prior"] = xp.asarray(p["prior"](np.asarray(x.detach().cpu() if hasattr(x, "detach") else x)))
    try:
        s = a.convert_to_samples(x, evaluate=True, **kw)
    except Exception as e:
        from env import exc_site

        r.violation(f"C17/convert_to_samples/raises/{type(e).__name__}/{exc_site(e)}/{ns}", repr(e)[:200], case)
        return r.dump()
    kinds = [c["kind"] for c in mon.calls]
    want = ["like"] if given == "prior" else ["prior", "like"]
    if kinds != want:
        r.violation(f"C17/convert_to_samples/call-order/{ns}", {"calls": kinds, "want": want}, case)
    for v in sorted(set(v[0] for v in mon.violations)):
        r.violation(f"C17/convert_to_samples/{v}/{ns}", None, case)
    if s.log_w is None or s.log_evidence is None:
        r.violation(f"C17/convert_to_samples/not-weighted/{ns}", None, case)
    r.outcomes.add(("convert", ns, given))
    r.sample(case)
    return r.dump()


def dispatch(job):
    return globals()[job[0]](job[1])


def configs(tier, seed):
    out = []
    seeds = sorted({0, seed})
    for sampler in ("importance", "emcee", "minipcn", "smc", "emcee_smc"):
        nss = ("numpy", "torch") if sampler in ("importance", "smc", "minipcn", "emcee_smc") else ("numpy",)
        if sampler in ("smc", "emcee_smc") and tier == "thorough":
            nss = ("numpy", "torch", "jax")
        if sampler == "emcee" and tier == "thorough":
            nss = ("numpy", "torch")
        for precond, ns, sd in itertools.product(("none", "tight", "periodic", "logit_affine", "probit"), nss, seeds):
            if sampler == "importance" and precond != "none":
                continue
            for nfinal in (None, 12):
                if nfinal and sampler in ("importance", "emcee", "minipcn"):
                    continue
                for sched in ({"adaptive": True, "target_efficiency": 0.8}, {"adaptive": False, "n_steps": 3}):
                    if sampler in ("importance", "emcee", "minipcn") and not sched["adaptive"]:
                        continue
                    out.append(("run_one", {"sampler": sampler, "N": 8, "opts": dict(sched) if sampler in ("smc", "emcee_smc") else {},
                                            "cadence": 1, "n_final": nfinal, "precond": precond, "seed": sd, "ns": ns}))
    # a prior that varies over its support (with a box prior, a log-prior carried over from other points goes unnoticed)
    for sampler in ("minipcn", "emcee", "smc", "emcee_smc"):
        for ns in (("numpy", "torch") if sampler != "emcee" else ("numpy",)):
            for nfinal in ((None, 12) if sampler in ("smc", "emcee_smc") else (None,)):
                out.append(("run_one", {"sampler": sampler, "N": 8, "opts": {"adaptive": True, "target_efficiency": 0.8} if sampler in ("smc", "emcee_smc") else {},
                                        "cadence": 1, "n_final": nfinal, "precond": "sloped", "seed": 0, "ns": ns}))
    # the MCMC samplers' chain post-processing options (the final evaluation batch has another size)
    for precond in ("none", "tight") if tier == "quick" else ("none", "tight", "periodic", "logit_affine"):
        for mo in ({"burnin": 1, "thin": 2}, {"last_step_only": True}, {"thin": 3}):
            out.append(("run_one", {"sampler": "minipcn", "N": 8, "opts": {}, "cadence": 1, "n_final": None, "precond": precond, "seed": 0,
                                    "ns": "numpy", "mcmc_opts": mo}))
        out.append(("run_one", {"sampler": "emcee", "N": 8, "opts": {}, "cadence": 1, "n_final": None, "precond": precond, "seed": 0,
                                "ns": "numpy", "mcmc_opts": {"discard": 1}}))
    # runs inside Aspire.enable_pool (likelihood only / likelihood and prior evaluated through the pool's map)
    for sampler in ("importance", "emcee", "minipcn", "smc", "emcee_smc"):
        for pool in (True, "prior"):
            out.append(("run_one", {"sampler": sampler, "N": 8, "opts": {"adaptive": True, "target_efficiency": 0.8} if sampler in ("smc", "emcee_smc") else {},
                                    "cadence": 1, "n_final": 12 if sampler in ("smc", "emcee_smc") else None, "precond": "tight" if sampler != "importance" else "none",
                                    "seed": 0, "ns": "numpy", "pool": pool}))
    for pre in ("none", "logit") if tier == "quick" else ("none", "logit", "affine"):
        out.append(("run_one", {"sampler": "blackjax_smc", "N": 8, "seed": 0, "opts": {"adaptive": True, "target_efficiency": 0.8},
                                "n_final": 12, "precond": pre}))
        out.append(("run_one", {"sampler": "blackjax_smc", "N": 8, "seed": 0, "opts": {"adaptive": False, "n_steps": 2},
                                "n_final": None, "precond": pre}))
    for ns in ("numpy", "torch", "jax"):
        for given in ("nothing", "prior"):
            out.append(("run_convert", (ns, given)))
    for sampler in ("importance", "minipcn", "emcee", "smc", "emcee_smc"):
        out.append(("run_faulted", {"sampler": sampler, "N": 8, "opts": {"adaptive": True, "target_efficiency": 0.8} if sampler in ("smc", "emcee_smc") else {},
                                    "cadence": 1, "n_final": 12 if sampler in ("smc", "emcee_smc") else None,
                                    "precond": "tight" if sampler != "importance" else "none", "seed": 0, "ns": "numpy"}))
    for opts in ({"adaptive": True}, {"adaptive": True, "target_efficiency": 0.9}, {"adaptive": False, "n_steps": 3},
                 {"adaptive": True, "n_final_samples": 6}):
        for sampler in ("smc", "emcee_smc"):
            out.append(("run_explored", {"N": 4, "opts": opts, "sampler": sampler}))
    return out


def run(tier, seed, workers):
    rep = Report()
    jobs = configs(tier, seed)
    jobs.sort(key=lambda j: 0 if isinstance(j[1], dict) and j[1].get("sampler") == "blackjax_smc" else 1)
    for d in pmap("checks.c17", "dispatch", jobs, workers):
        rep.merge(d)
    rep.count("jobs", len(jobs))
    return rep


def replay(case):
    r = Report()
    if case.get("explored"):
        from checks.c06 import _fix

        r.merge(run_explored(_fix(case["cfg"])))
    elif case.get("faulted"):
        r.merge(run_faulted(case["cfg"]))
    elif case.get("convert_to_samples"):
        r.merge(run_convert((case["ns"], case["given"])))
    else:
        cfg = case["cfg"]
        te = cfg.get("opts", {}).get("target_efficiency")
        if isinstance(te, list):
            cfg["opts"]["target_efficiency"] = tuple(te)
        r.merge(run_one(cfg))
    return r
