"""C15 Array-namespace and dtype conversions preserve values and precision.

Exhaustive configuration enumeration: sample class x source namespace x
target namespace x source dtype x requested-dtype spelling x optional-field
subset x conversion route; every dtype spelling through the dtype helpers;
dtype of every population a sampler builds, restores or returns; flow outputs
consumed in every sample namespace."""
import itertools
import pickle

import numpy as np

from env import get_dtype, get_xp, tonp
from mc import explorer
from mc.par import pmap
from mc.report import Report

LEVEL = "exploration"
RULE = ("full product: class {BaseSamples,Samples,SMCSamples} x source ns x target ns (all 9 ordered pairs) x source dtype "
        "{float32,float64} x requested dtype {None,'float32','float64', native object of the target} x field subset "
        "{none, all, all with a given evidence, L+pi, q only} x route {to_namespace, to_numpy, from_samples(xp=), sample_posterior(xp=)}; dtype helpers "
        "over 14 spellings x 3 namespaces; sampler populations (initial, every stored, restored, final) for requested dtype x "
        "namespace x sampler (fresh, resumed, resumed by a sampler asked for the other precision - from the first and from the last checkpoint -, and the population handed back by the restore call) x {wide prior, tight prior whose rejected proposal draws make the initial population a concatenation of several batches}; JAX sources with JAX's default 64-bit-disabled configuration (fresh interpreter) into torch/numpy with a float64 request; zuko/flowjax outputs into Samples(xp=ns); spellings without a width (float, double, single, half, builtin float) through resolve_dtype / convert_dtype / BaseSamples against the namespace's own reading. non-trivial = cross-namespace or dtype-changing case")
ASSUMPTIONS = [
    "values 0.1*(i+1)+j style floats that are not exactly representable in float32, so that a silent narrowing changes values",
    "stub kernels for the sampler-population part",
]

NS = ("numpy", "torch", "jax")
FIELDSETS = {"none": (0, 0, 0), "all": (1, 1, 1), "L+pi": (1, 1, 0), "q": (0, 0, 1),
             # a weighted set that carries an evidence other than the one derivable from its own weights (slice, concatenation, explicit argument)
             "all+given-evidence": (1, 1, 1)}


def width(a):
    return str(tonp(a).dtype)


def make(cls, ns, dt, fs):
    from aspire import samples as S

    xp = get_xp(ns)
    n = 3
    i = np.arange(n, dtype=np.float64)
    x = np.stack([0.1 * (i + 1), 1.0 / 3.0 + i], axis=1)
    kw = {}
    f = FIELDSETS[fs]
    if f[0]:
        kw["log_likelihood"] = xp.asarray(-0.7 - 0.3 * i)
    if f[1]:
        kw["log_prior"] = xp.asarray(-1.1 + 0.01 * i)
    if f[2]:
        kw["log_q"] = xp.asarray(-0.9 - 0.2 * i)
    C = getattr(S, cls)
    if cls == "SMCSamples":
        kw.update(beta=0.25, log_evidence=-2.5, log_evidence_error=0.5)
    if cls == "Samples" and (not all(f) or fs == "all+given-evidence"):
        kw.update(log_evidence=-2.5, log_evidence_error=0.5)
    return C(x=xp.asarray(x), xp=xp, dtype=get_dtype(ns, dt), parameters=["a", "b"], **kw)


def req_dtype(spelling, target_ns):
    if spelling is None:
        return None
    if spelling in ("float32", "float64"):
        return spelling
    name = spelling.split(":")[1]
    return get_dtype(target_ns, name)


def check_converted(r, src, out, cls, src_ns, tgt_ns, src_dt, want_dt, route, case):
    sig = f"C15/{route}/{cls}"
    if type(out).__name__ != cls:
        r.violation(f"{sig}/class-changed", type(out).__name__, case)
    xpn = getattr(out.xp, "__name__", str(out.xp))
    if tgt_ns not in xpn:
        r.violation(f"{sig}/namespace/{src_ns}->{tgt_ns}:got-{xpn}", xpn, case)
    for f in ("x", "log_likelihood", "log_prior", "log_q"):
        a, b = getattr(src, f), getattr(out, f)
        if (a is None) != (b is None):
            r.violation(f"{sig}/field-{'lost' if b is None else 'appeared'}/{f}", None, case)
            continue
        if a is None:
            continue
        mod = type(b).__module__
        if not ((tgt_ns == "numpy" and mod.startswith("numpy")) or (tgt_ns == "torch" and mod.startswith("torch"))
                or (tgt_ns == "jax" and ("jax" in mod))):
            r.violation(f"{sig}/array-type/{f}/{src_ns}->{tgt_ns}", mod, case)
        got_w = width(b)
        if got_w != want_dt:
            kind = "widened" if (got_w, want_dt) == ("float64", "float32") else "narrowed" if (got_w, want_dt) == ("float32", "float64") else "other"
            r.violation(f"{sig}/width-{kind}/{src_ns}->{tgt_ns}/{'default' if case['request'] is None else 'requested'}",
                        {"field": f, "got": got_w, "want": want_dt}, case)
            break
        av, bv = tonp(a).astype(np.float64), tonp(b).astype(np.float64)
        if want_dt == src_dt or want_dt == "float64":
            same = np.array_equal(av, bv)
        else:
            same = np.array_equal(av.astype(np.float32), bv.astype(np.float32))
        if not same:
            r.violation(f"{sig}/values-changed/{f}", {"src": av.tolist(), "got": bv.tolist()}, case)
    for f in ("beta", "log_evidence", "log_evidence_error"):
        if hasattr(src, f):
            a, b = getattr(src, f), getattr(out, f, None)
            if a is not None and b is None:
                r.violation(f"{sig}/attribute-lost/{f}", None, case)
            elif a is not None and abs(float(tonp(a)) - float(tonp(b))) > 1e-6 * (1 + abs(float(tonp(a)))):
                r.violation(f"{sig}/attribute-changed/{f}", {"src": float(tonp(a)), "got": float(tonp(b))}, case)
    if out.parameters != src.parameters:
        r.violation(f"{sig}/parameters", out.parameters, case)


def staged_conversions(r, cls, src_ns):
    """A set that is filled in stages (as the samplers do: coordinates and log q first, prior and likelihood assigned later)
    and converted in between: every conversion reflects the set as it is at that moment."""
    from aspire import samples as S

    if cls != "Samples":
        return
    xp = get_xp(src_ns)
    for dt, tgt_ns in itertools.product(("float32", "float64"), NS):
        case = {"class": cls, "src": src_ns, "tgt": tgt_ns, "src_dtype": dt, "staged": True}
        r.case(explorer.digest(case), nontrivial=True)
        try:
            i = np.arange(3, dtype=np.float64)
            s = S.Samples(x=xp.asarray(np.stack([0.1 * (i + 1), 1.0 / 3.0 + i], axis=1)), log_q=xp.asarray(-0.9 - 0.2 * i), xp=xp,
                          dtype=get_dtype(src_ns, dt), parameters=["a", "b"])
            first = s.to_numpy() if tgt_ns == "numpy" else s.to_namespace(get_xp(tgt_ns))
            s.log_prior = s.array_to_namespace(xp.asarray(-1.1 + 0.01 * i))
            s.log_likelihood = s.array_to_namespace(xp.asarray(-0.7 - 0.3 * i))
            s.compute_weights()
            second = s.to_numpy() if tgt_ns == "numpy" else s.to_namespace(get_xp(tgt_ns))
        except Exception as e:
            from env import exc_site

            r.violation(f"C15/staged/raises/{type(e).__name__}/{exc_site(e)}/{src_ns}->{tgt_ns}", repr(e)[:200], case)
            continue
        if first.log_prior is not None or first.log_likelihood is not None:
            r.violation(f"C15/staged/first-conversion-has-later-fields/{src_ns}->{tgt_ns}", None, case)
        for f in ("log_prior", "log_likelihood", "log_w", "log_evidence"):
            a, b = getattr(s, f), getattr(second, f)
            if b is None:
                r.violation(f"C15/staged/field-lost-in-later-conversion/{f}", {"route": "to_numpy" if tgt_ns == "numpy" else "to_namespace"}, case)
                break
            if abs(float(np.sum(tonp(a).astype(np.float64))) - float(np.sum(tonp(b).astype(np.float64)))) > 1e-5:
                r.violation(f"C15/staged/values-changed/{f}", None, case)
                break


def run_conversions(arg):
    cls, src_ns = arg
    r = Report()
    staged_conversions(r, cls, src_ns)
    for tgt_ns, src_dt, fs in itertools.product(NS, ("float32", "float64"), FIELDSETS):
        for spelling in (None, "float32", "float64", "native:float32", "native:float64"):
            for route in ("to_namespace", "to_numpy", "from_samples"):
                if route == "to_numpy" and tgt_ns != "numpy":
                    continue
                case = {"class": cls, "src": src_ns, "tgt": tgt_ns, "src_dtype": src_dt, "fields": fs, "request": spelling, "route": route}
                try:
                    src = make(cls, src_ns, src_dt, fs)
                except Exception as e:
                    r.case(explorer.digest(case))
                    r.violation(f"C15/construct/{cls}/{type(e).__name__}", repr(e)[:200], case)
                    continue
                req = req_dtype(spelling, tgt_ns)
                want_dt = src_dt if spelling is None else spelling.split(":")[-1]
                xp = get_xp(tgt_ns)
                import inspect

                try:
                    if route == "to_namespace":
                        params = inspect.signature(src.to_namespace).parameters
                        if "dtype" in params:
                            out = src.to_namespace(xp, dtype=req)
                        elif spelling is None:
                            out = src.to_namespace(xp)
                        else:
                            continue  # this class offers no dtype argument on this route
                    elif route == "to_numpy":
                        params = inspect.signature(src.to_numpy).parameters
                        if "dtype" in params:
                            out = src.to_numpy(dtype=req)
                        elif spelling is None:
                            out = src.to_numpy()
                        else:
                            continue
                    else:
                        kw = {"xp": xp}
                        if spelling is not None:
                            kw["dtype"] = req
                        extra = {"beta": src.beta} if cls == "SMCSamples" else {}
                        out = type(src).from_samples(src, **kw, **extra)
                except Exception as e:
                    from env import exc_site

                    r.case(explorer.digest(case), nontrivial=True)
                    r.violation(f"C15/{route}/{cls}/raises/{type(e).__name__}/{src_ns}->{tgt_ns}/{exc_site(e)}", repr(e)[:200], case)
                    continue
                r.case(explorer.digest(case), nontrivial=(src_ns != tgt_ns) or want_dt != src_dt)
                r.outcomes.add(explorer.digest([cls, src_ns, tgt_ns, width(out.x)]))
                if route == "from_samples":
                    # from_samples is a copy-constructor: beta is passed explicitly, evidence is not its business
                    class V:  # view without evidence attributes
                        pass
                    check_converted(r, _strip(src), out, cls, src_ns, tgt_ns, src_dt, want_dt, route, case)
                else:
                    check_converted(r, src, out, cls, src_ns, tgt_ns, src_dt, want_dt, route, case)
    r.sample({"class": cls, "src": src_ns, "tgt": "torch", "src_dtype": "float64", "fields": "all", "request": None, "route": "to_namespace"})
    return r.dump()


class _Strip:
    def __init__(self, s):
        self._s = s

    def __getattr__(self, k):
        if k in ("log_evidence", "log_evidence_error", "beta"):
            raise AttributeError(k)
        return getattr(self._s, k)


def _strip(s):
    return _Strip(s)


def run_helpers(_):
    from aspire import utils as U

    r = Report()
    import jax.numpy as jnp
    import torch

    spell = {
        "numpy": ["float16", "float32", "float64", "int32", "numpy.float64", np.float32, np.dtype("float64"), np.dtype("int32")],
        "torch": ["float16", "float32", "float64", "int32", "torch.float32", torch.float32, torch.float64, torch.int32],
        "jax": ["float16", "float32", "float64", "int32", "jax.numpy.float32", jnp.float32, jnp.dtype("float64"), jnp.dtype("int32")],
    }

    def name_of(d):
        return U._dtype_to_name(d)

    for ns in NS:
        xp = get_xp(ns)
        for sp in spell[ns]:
            case = {"helper": "resolve/encode/decode", "ns": ns, "spelling": repr(sp)}
            r.case(explorer.digest(case), nontrivial=True)
            try:
                d = U.resolve_dtype(sp, xp)
                want = name_of(sp)
                z = xp.zeros(2, dtype=d)
                if want not in str(z.dtype):
                    r.violation(f"C15/helpers/resolve_dtype/wrong-dtype/{ns}", {"spelling": repr(sp), "got": str(z.dtype)}, case)
                enc = U.encode_dtype(xp, d)
                dec = U.decode_dtype(xp, enc)
                z2 = xp.zeros(2, dtype=dec)
                if str(z2.dtype) != str(z.dtype):
                    r.violation(f"C15/helpers/encode-decode/{ns}", {"spelling": repr(sp), "got": str(z2.dtype), "want": str(z.dtype)}, case)
            except Exception as e:
                r.violation(f"C15/helpers/resolve-encode-decode-raises/{ns}/{type(e).__name__}", {"spelling": repr(sp), "err": repr(e)[:160]}, case)
            for tgt in NS:
                c2 = {"helper": "convert_dtype", "ns": ns, "tgt": tgt, "spelling": repr(sp)}
                r.case(explorer.digest(c2), nontrivial=ns != tgt)
                try:
                    d = U.resolve_dtype(sp, xp)
                    dd = U.convert_dtype(d, get_xp(tgt))
                    z = get_xp(tgt).zeros(2, dtype=dd)
                    if name_of(sp) not in str(z.dtype):
                        r.violation(f"C15/helpers/convert_dtype/wrong-dtype/{ns}->{tgt}", {"spelling": repr(sp), "got": str(z.dtype)}, c2)
                except Exception as e:
                    r.violation(f"C15/helpers/convert_dtype-raises/{ns}->{tgt}/{type(e).__name__}", {"spelling": repr(sp), "err": repr(e)[:160]}, c2)
    # spellings without a width: what they mean is the namespace's own business ("float" is float64 for NumPy and JAX with
    # x64, float32 for torch); reference = the namespace's own reading, not aspire's name helper
    from aspire.samples import BaseSamples

    unsized = {
        "numpy": ["float", "double", "single", "half", "Float", "np.float", float],
        "jax": ["float", "double", "single", "half", float],
        "torch": ["float", "double", "half"],
    }
    for ns in NS:
        xp = get_xp(ns)
        for sp in unsized[ns]:
            if ns == "torch":
                ref = str(getattr(torch, sp)).replace("torch.", "")
            else:
                ref = np.dtype(sp.split(".")[-1].lower() if isinstance(sp, str) else sp).name
            routes = {
                "resolve_dtype": lambda: xp.zeros(2, dtype=U.resolve_dtype(sp, xp)).dtype,
                "convert_dtype": lambda: xp.zeros(2, dtype=U.convert_dtype(sp, xp)).dtype,
                "BaseSamples": lambda: BaseSamples(x=xp.asarray(np.ones((2, 2)) + 1e-12), xp=xp, dtype=sp, parameters=["a", "b"]).x.dtype,
            }
            for route, fn in routes.items():
                c3 = {"helper": "unsized-spelling", "ns": ns, "spelling": repr(sp), "route": route}
                r.case(explorer.digest(c3), nontrivial=True)
                try:
                    got = str(fn()).replace("torch.", "")
                except Exception as e:  # refusing a spelling is legitimate
                    r.count(f"unsized-spelling-refused:{ns}:{sp!r}:{route}:{type(e).__name__}")
                    continue
                if got != ref:
                    r.violation(f"C15/helpers/unsized-spelling/{ns}/{route}", {"spelling": repr(sp), "got": got, "namespace_reads_it_as": ref}, c3)
    r.sample({"helper": "convert_dtype", "ns": "torch", "tgt": "jax", "spelling": "torch.float64"})
    return r.dump()


def run_sampler_dtypes(arg):
    """dtype of every population a sampler builds, restores or returns."""
    sampler, ns, dt = arg[:3]
    cb = arg[3] if len(arg) > 3 else None
    problem = arg[4] if len(arg) > 4 else "none"  # "tight": proposal draws fall outside the prior, the initial population is assembled from several batches
    from env import resume_harness as rh

    r = Report()
    cfg = {"sampler": sampler, "N": 8, "opts": {"adaptive": True, "target_efficiency": 0.8}, "cadence": 1, "n_final": 10,
           "precond": problem, "seed": 0, "ns": ns, "dtype": dt, "callback_dtype": cb}
    case = {"sampler": sampler, "ns": ns, "dtype": dt, "callback_dtype": cb, "problem": problem}
    r.case(explorer.digest(case), nontrivial=True)
    want = dt if dt is not None else ("float32" if ns == "torch" else "float64")

    def inspect_run(R, stage):
        nonlocal want
        if R.exception is not None:
            r.violation(f"C15/sampler/{sampler}/raises/{R.exception[0]}/{R.exception[1] if len(R.exception) > 2 else ''}/{ns}/{dt}", R.exception, dict(case, stage=stage))
            return False
        # the set-level estimates the sampler returns with the final population
        # (not for a resume across precisions: the restored history legitimately holds the increments as they were stored)
        for nm, got in zip(("log_evidence", "log_evidence_error"), (R.result.get("evidence_dtypes") or ()) if "checkpoint" not in stage else ()):
            if got != want:
                r.violation(f"C15/sampler/{sampler}/{nm}-dtype/{stage}/{ns}/requested-{want}/got-{got}", {"got": got, "want": want}, dict(case, stage=stage))
        if want == "float64" and "float32-checkpoint" not in stage and R.result.get("evidence_exact"):
            ev = float(R.result["evidence_exact"][0])
            if np.isfinite(ev) and ev != 0.0 and float(np.float32(ev)) == ev:
                r.violation(f"C15/sampler/{sampler}/log_evidence-passed-through-float32/{stage}/{ns}", {"log_evidence": ev}, dict(case, stage=stage))
        pops = [("final", R.result["final"])] + [(f"history[{i}]", s) for i, s in enumerate(R.history["sample_history"])]
        for name, s in pops:
            xs = np.asarray(s["x"])
            # (not for a run that legitimately continues from a float32 checkpoint)
            if want == "float64" and "float32-checkpoint" not in stage and xs.size >= 4 and np.all(xs.astype(np.float32).astype(np.float64) == xs):
                # every coordinate is exactly a float32 number: the population went through a narrower width on the way
                which = "initial" if name == "history[0]" else "final" if name == "final" else "iteration"
                r.violation(f"C15/sampler/{sampler}/population-passed-through-float32/{which}/{stage}/{ns}",
                            {"population": name, "x": xs[:2].tolist()}, dict(case, stage=stage))
                return True
            for f in ("x", "L", "P", "Q"):
                if s[f] is None:
                    continue
                got = str(s[f].dtype)
                if got != want:
                    which = "initial" if name == "history[0]" else "final" if name == "final" else "iteration"
                    r.violation(f"C15/sampler/{sampler}/population-dtype/{which}/{stage}/{ns}/requested-{want}/got-{got}",
                                {"population": name, "field": f, "got": got, "want": want}, dict(case, stage=stage))
                    return True
        return True

    if dt is None:
        return r.dump()
    if sampler in ("minipcn", "emcee"):
        from env import any_run

        R = any_run.run_any(dict(cfg, opts={}, n_final=None))
        R.history = {"sample_history": []}
        inspect_run(R, "fresh")
        r.sample(case)
        return r.dump()
    R = rh.run(cfg)
    ok = inspect_run(R, "fresh")
    if ok and R.sink:
        r2 = rh.run(cfg, resume_from=R.sink[0][1])
        r.case(explorer.digest([case, "resumed"]), nontrivial=True)
        inspect_run(r2, "resumed")
        # a checkpoint written in one precision, resumed by a sampler that was asked for the other one: every population
        # the resumed sampler restores, builds or returns has the precision requested now
        other_dt = "float64" if dt == "float32" else "float32"
        want_saved = want
        want = other_dt
        r3 = rh.run(dict(cfg, dtype=other_dt), resume_from=R.sink[0][1])
        r.case(explorer.digest([case, "resumed-with-other-dtype"]), nontrivial=True)
        if r3.exception is None:
            # the history carried by the checkpoint keeps the populations stored before the interruption as they were
            n_before = len(pickle.loads(R.sink[0][1])["history"].sample_history)
            r3.history["sample_history"] = r3.history["sample_history"][n_before:]
        inspect_run(r3, f"resumed-with-{other_dt}-from-{dt}-checkpoint")
        # ... from the last checkpoint too (nothing is left to do: the restored population is the one returned)
        r4 = rh.run(dict(cfg, dtype=other_dt, n_final=None), resume_from=R.sink[-1][1])
        r.case(explorer.digest([case, "resumed-with-other-dtype-from-last"]), nontrivial=True)
        if r4.exception is None:
            r4.history["sample_history"] = []
        inspect_run(r4, f"resumed-with-{other_dt}-from-last-{dt}-checkpoint")
        # ... and the population handed back by the restore call itself
        try:
            restored = r3.sampler.restore_from_checkpoint(R.sink[0][1])[0]
            got = str(tonp(restored.x).dtype)
            if got != other_dt:
                r.violation(f"C15/sampler/{sampler}/restored-population-dtype/{ns}/requested-{other_dt}/got-{got}", {"checkpoint": dt}, case)
        except Exception as e:
            from env import exc_site

            r.violation(f"C15/sampler/{sampler}/restore-raises/{type(e).__name__}/{exc_site(e)}", repr(e)[:200], case)
        want = want_saved
    if problem != "none":
        r.sample(case)
        return r.dump()
    # importance sampling and the output-namespace option
    from aspire import Aspire
    from env.flows import AnalyticFlow
    from env.targets import Monitor

    p = rh.problem("none")
    for out_ns in NS + (None,):
        c2 = dict(case, sampler="importance", out_ns=out_ns)
        r.case(explorer.digest(c2), nontrivial=out_ns != ns)
        try:
            mon = Monitor(p["like"], p["prior"], ns)
            mon.ret_dtype = cb
            flow = AnalyticFlow(2, seed=1, xp_name=ns, dtype=get_dtype(ns, dt), **p["flow"])
            a = Aspire(log_likelihood=mon.log_likelihood, log_prior=mon.log_prior, dims=2, parameters=p["parameters"],
                       prior_bounds=p["bounds"], flow=flow, xp=get_xp(ns), dtype=get_dtype(ns, dt))
            s = a.sample_posterior(n_samples=5, sampler="importance", xp=get_xp(out_ns) if out_ns else None)
        except Exception as e:
            from env import exc_site

            r.violation(f"C15/sample_posterior-xp/raises/{type(e).__name__}/{ns}->{out_ns}/{exc_site(e)}", repr(e)[:200], c2)
            continue
        for fld in ("x", "log_likelihood", "log_prior", "log_q", "log_w"):
            got = width(getattr(s, fld))
            if got != want:
                r.violation(f"C15/sample_posterior-xp/width/{ns}->{out_ns}/requested-{dt}/got-{got}", {"got": got, "field": fld}, c2)
                break
        if out_ns is None:
            continue
        mod = type(s.x).__module__
        if not ((out_ns == "numpy" and mod.startswith("numpy")) or (out_ns == "torch" and mod.startswith("torch")) or (out_ns == "jax" and "jax" in mod)):
            r.violation(f"C15/sample_posterior-xp/array-type/{ns}->{out_ns}", mod, c2)
        if s.log_q is None or s.log_w is None:
            r.violation(f"C15/sample_posterior-xp/field-lost/{ns}->{out_ns}", None, c2)
    r.sample(case)
    return r.dump()


def run_flow_outputs(backend):
    """Proposal outputs can be consumed in any supported sample namespace."""
    from aspire.samples import Samples

    r = Report()
    from aspire.flows import get_flow_wrapper

    F, fxp = get_flow_wrapper(backend)
    for dt in ("float32", "float64"):
        try:
            if backend == "zuko":
                flow = F(dims=2, seed=0, dtype=dt)
            else:
                import jax

                flow = F(dims=2, key=jax.random.key(0), dtype=dt)
        except Exception as e:
            r.case(explorer.digest([backend, dt]))
            r.violation(f"C15/flow-output/{backend}/construct-raises/{type(e).__name__}", repr(e)[:200], {"backend": backend, "dtype": dt})
            continue
        x, lq = flow.sample_and_log_prob(4)
        lp = flow.log_prob(x)
        for ns in NS:
            for name, val in (("sample_and_log_prob", lq), ("log_prob", lp)):
                case = {"backend": backend, "dtype": dt, "ns": ns, "output": name}
                r.case(explorer.digest(case), nontrivial=True)
                try:
                    s = Samples(x=x, log_q=val, xp=get_xp(ns), dtype=get_dtype(ns, dt))
                    got = tonp(s.log_q).astype(np.float64)
                    if not np.allclose(got, tonp(val).astype(np.float64), rtol=1e-6):
                        r.violation(f"C15/flow-output/{backend}/values-changed/{ns}", None, case)
                except Exception as e:
                    from env import exc_site

                    tag = "zuko-log_prob-requires-grad" if "grad" in str(e) else type(e).__name__
                    r.violation(f"C15/flow-output/{tag}" if "grad" in str(e) else f"C15/flow-output/{backend}/{name}/raises/{tag}/{ns}",
                                repr(e)[:200], case)
    r.sample({"backend": backend, "dtype": "float64", "ns": "numpy", "output": "log_prob"})
    return r.dump()


def x64_off_worker():
    """Runs inside a fresh interpreter in which JAX keeps its default configuration (64-bit disabled)."""
    import json

    import jax.numpy as jnp
    import torch

    from aspire import samples as S

    out = []
    xj = jnp.asarray([[0.1, 1 / 3], [0.2, 2 / 3], [0.3, 1.0]])
    lj = jnp.asarray([-0.7, -1.0, -1.3])
    txp = get_xp("torch")
    nxp = get_xp("numpy")
    for cls in ("BaseSamples", "Samples", "SMCSamples"):
        C = getattr(S, cls)
        extra = {"beta": 0.5} if cls == "SMCSamples" else {}
        for req in ("float64", torch.float64, "float32"):
            want = "float64" if "64" in str(req) else "float32"
            for route in ("constructor", "to_namespace", "from_samples"):
                rec = {"class": cls, "route": route, "request": str(req), "want": want}
                try:
                    if route == "constructor":
                        o = C(x=xj, log_likelihood=lj, log_prior=lj, log_q=lj, xp=txp, dtype=req, **extra)
                    else:
                        src = C(x=xj, log_likelihood=lj, log_prior=lj, log_q=lj, xp=jnp, **extra)
                        if route == "to_namespace":
                            import inspect

                            if "dtype" not in inspect.signature(src.to_namespace).parameters:
                                continue
                            o = src.to_namespace(txp, dtype=req)
                        else:
                            o = C.from_samples(src, xp=txp, dtype=req, **extra)
                    rec["got"] = {f: str(getattr(o, f).dtype).replace("torch.", "") for f in ("x", "log_likelihood", "log_q")}
                    rec["reported"] = str(o.dtype).replace("torch.", "")
                except Exception as e:
                    rec["error"] = f"{type(e).__name__}: {str(e)[:120]}"
                out.append(rec)
        # jax float32 source into numpy with a float64 request
        try:
            o = C(x=xj, log_likelihood=lj, log_prior=lj, log_q=lj, xp=nxp, dtype="float64", **extra)
            out.append({"class": cls, "route": "constructor-numpy", "request": "float64", "want": "float64",
                        "got": {"x": str(o.x.dtype)}, "reported": str(o.dtype)})
        except Exception as e:
            out.append({"class": cls, "route": "constructor-numpy", "request": "float64", "want": "float64", "error": repr(e)[:120]})
    print("X64OFF=" + json.dumps(out))


def run_x64_off(_):
    """JAX's default configuration has 64-bit types disabled (the repository's tests enable them): a float64
    request for a torch / numpy sample set built from JAX arrays must still be honoured."""
    import json
    import os
    import subprocess
    import sys

    r = Report()
    verif = os.path.dirname(os.path.dirname(os.path.abspath(__file__)))
    code = ("import sys; sys.path.insert(0, %r); import env; env.setup(jax_x64=False); "
            "from checks import c15; c15.x64_off_worker()" % verif)
    envv = dict(os.environ, JAX_ENABLE_X64="0")
    pr = subprocess.run([sys.executable, "-c", code], capture_output=True, text=True, env=envv, timeout=600)
    line = [l for l in pr.stdout.splitlines() if l.startswith("X64OFF=")]
    if not line:
        raise explorer.HarnessError("x64-off worker produced nothing: " + pr.stderr[-400:])
    for rec in json.loads(line[0][7:]):
        case = {"x64_off": True, **{k: rec[k] for k in ("class", "route", "request")}}
        r.case(explorer.digest(case), nontrivial=True)
        if "error" in rec:
            r.violation(f"C15/jax-x64-off/{rec['route']}/{rec['class']}/raises", rec["error"], case)
            continue
        bad = {f: w for f, w in rec["got"].items() if w != rec["want"]}
        if bad:
            r.violation(f"C15/jax-x64-off/{rec['route']}/requested-{rec['want']}/got-{sorted(set(bad.values()))[0]}",
                        {"fields": bad, "reported_dtype": rec["reported"]}, case)
    r.sample({"x64_off": True, "class": "Samples", "route": "constructor", "request": "float64"})
    return r.dump()


def dispatch(job):
    return globals()[job[0]](job[1])


def run(tier, seed, workers):
    rep = Report()
    jobs = [("run_conversions", (cls, ns)) for cls in ("BaseSamples", "Samples", "SMCSamples") for ns in NS]
    jobs.append(("run_helpers", None))
    for sampler in ("smc", "emcee_smc", "minipcn", "emcee"):
        for ns in ("numpy", "torch", "jax") if (tier == "thorough" and sampler in ("smc", "emcee_smc")) else ("numpy", "torch"):
            for dt in ("float32", "float64"):
                jobs.append(("run_sampler_dtypes", (sampler, ns, dt)))
                # user callables that return the *other* float width (e.g. a NumPy likelihood always returns float64)
                other = "float64" if dt == "float32" else "float32"
                jobs.append(("run_sampler_dtypes", (sampler, ns, dt, other)))
                jobs.append(("run_sampler_dtypes", (sampler, ns, dt, None, "tight")))
    jobs.append(("run_x64_off", None))
    jobs.append(("run_flow_outputs", "zuko"))
    jobs.append(("run_flow_outputs", "flowjax"))
    for d in pmap("checks.c15", "dispatch", jobs, workers):
        rep.merge(d)
    return rep


def replay(case):
    r = Report()
    if "class" in case:
        r.merge(run_conversions((case["class"], case["src"])))
    elif case.get("x64_off"):
        r.merge(run_x64_off(None))
    elif "helper" in case:
        r.merge(run_helpers(None))
    elif "backend" in case:
        r.merge(run_flow_outputs(case["backend"]))
    else:
        r.merge(run_sampler_dtypes((case["sampler"] if case["sampler"] != "importance" else "smc", case["ns"], case["dtype"], case.get("callback_dtype"), case.get("problem", "none"))))
    return r
