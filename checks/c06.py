"""C06 The SMC temperature schedule strictly increases, ends at 1, terminates.

Deviation-bounded exhaustive exploration of the real SMC loop with the
teleport kernel stub (the environment decides which population the kernel
returns) and enumerated resampling outcomes, over a grid of schedule options."""
from env.schedule_harness import run_execution
from mc import explorer
from mc.cover import pairwise
from mc.par import pmap
from mc.report import Report
from oracles.smc_oracles import check_schedule

LEVEL = "exploration"
RULE = ("schedule-option grid (single-option sweeps + pairwise covering array in quick, full product in thorough; fixed schedules n=1..64/300, fixed schedules with a step cap, runs on a sampler object that already completed another run - incl. ramped-then-scalar targets -, each compared with the same run on a fresh object; cap-ended runs continued from their last checkpoint with another schedule) x "
        "every environment behaviour with at most D deviations (D=2 quick, 3 thorough): initial population and the "
        "population returned by the kernel after each of the first 4 iterations are chosen from a menu of 5 log-weight "
        "spreads (flat, 3, 1e3, 1e7, 1e9; the initial population may also contain a zero-likelihood particle), resampling index tuples of the first 3 resamplings are enumerated; "
        "one evaluation = one complete run of the real sampler; non-trivial = run with more than one iteration or a "
        "non-flat population; states = (population, temperatures so far, iteration)")
ASSUMPTIONS = [
    "teleport kernel stub: aspire cannot distinguish it from a kernel that moved the particles there",
    "horizon: a run that invokes the kernel more than 64 times is reported as spinning",
    "environment deviates only in the first 4 iterations / 3 resamplings (stated bound)",
]

ADAPTIVE = {
    "target_efficiency": [0.5, 0.9, (0.3, 0.8), 0.1],
    "rate": [None, 2.0],
    "min_step": [None, 0.3, 0.5],
    "max_n_steps": [None, 1, 3],
    "beta_tolerance": [None, 1e-2],
    "N": [4, 2],
}


def _valid(c):
    if c["rate"] is not None and not isinstance(c["target_efficiency"], tuple):
        return False
    return True


def to_cfg(c, sampler="smc"):
    opts = {"adaptive": True}
    for k in ("target_efficiency", "rate", "min_step", "max_n_steps", "beta_tolerance"):
        if c.get(k) is not None:
            opts[k] = c[k]
    return {"N": c["N"], "opts": opts, "sampler": sampler}


def configs(tier):
    chosen, allc = pairwise(ADAPTIVE, _valid)
    base = {"target_efficiency": 0.5, "rate": None, "min_step": None, "max_n_steps": None, "beta_tolerance": None, "N": 4}
    sweeps = []
    for k, vals in ADAPTIVE.items():
        for v in vals:
            c = dict(base, **{k: v})
            if k == "rate" and v is not None:
                c["target_efficiency"] = (0.3, 0.8)
            if _valid(c) and c not in sweeps:
                sweeps.append(c)
    cs = allc if tier == "thorough" else sweeps + [c for c in chosen if c not in sweeps]
    out = [to_cfg(c) for c in cs]
    # emcee_smc exposes fewer options (no min_step / max_n_steps / tolerance)
    for te in ADAPTIVE["target_efficiency"]:
        out.append({"N": 4, "opts": {"adaptive": True, "target_efficiency": te}, "sampler": "emcee_smc"})
    out.append({"N": 4, "opts": {"adaptive": True, "n_steps": 3}, "sampler": "smc"})
    out.append({"N": 4, "opts": {"adaptive": True, "n_final_samples": 6}, "sampler": "smc"})
    out.append({"N": 4, "opts": {"adaptive": True, "n_final_samples": 6, "max_n_steps": 3, "min_step": 0.3}, "sampler": "smc"})
    ns = [1, 2, 3, 6, 7, 10, 13] if tier == "quick" else [1, 2, 3, 4, 5, 6, 7, 8, 9, 10, 11, 12, 13, 14, 15, 19, 23]
    for n in ns:
        out.append({"N": 4, "opts": {"adaptive": False, "n_steps": n}, "sampler": "smc"})
        if n in (3, 7, 10):
            out.append({"N": 2, "opts": {"adaptive": False, "n_steps": n}, "sampler": "emcee_smc"})
            out.append({"N": 4, "opts": {"adaptive": False, "n_steps": n, "n_final_samples": 6}, "sampler": "smc"})
            out.append({"N": 4, "opts": {"adaptive": False, "n_steps": n, "min_step": 0.3}, "sampler": "smc"})
    # a coarse bisection tolerance: it is the resolution of the adaptive search, not a license to stop short of 1
    for n in (12, 30):
        out.append({"N": 2, "opts": {"adaptive": False, "n_steps": n, "beta_tolerance": 0.1}, "sampler": "smc", "bound": 1, "horizon": 100})
    for te in (0.5, 0.9):
        out.append({"N": 4, "opts": {"adaptive": True, "target_efficiency": te, "beta_tolerance": 0.1, "min_step": 0.05}, "sampler": "smc"})
        out.append({"N": 4, "opts": {"adaptive": True, "target_efficiency": te, "beta_tolerance": 0.3, "min_step": 0.11}, "sampler": "smc"})
    # a step cap combined with a fixed schedule
    for n, cap in ((6, 3), (3, 6), (10, 4), (4, 1)):
        out.append({"N": 4, "opts": {"adaptive": False, "n_steps": n, "max_n_steps": cap}, "sampler": "smc"})
    # non-initial state: the same sampler object already completed another run
    for prior in ({"adaptive": False, "n_steps": 2}, {"adaptive": True, "max_n_steps": 2, "target_efficiency": (0.3, 0.8)}):
        for sampler in ("smc", "emcee_smc"):
            if sampler == "emcee_smc" and "max_n_steps" in prior:
                continue
            out.append({"N": 4, "opts": {"adaptive": True}, "sampler": sampler, "prior_call": prior})
            out.append({"N": 4, "opts": {"adaptive": False, "n_steps": 3}, "sampler": sampler, "prior_call": prior})
    out.append({"N": 4, "opts": {"adaptive": True, "min_step": 0.3}, "sampler": "smc", "prior_call": {"adaptive": True, "max_n_steps": 3}})
    # an earlier run with a ramped target, then scalar targets (and the other way round)
    for sampler in ("smc", "emcee_smc"):
        out.append({"N": 4, "opts": {"adaptive": True, "target_efficiency": 0.5}, "sampler": sampler,
                    "prior_call": {"adaptive": True, "target_efficiency": (0.3, 0.9)}})
        out.append({"N": 4, "opts": {"adaptive": True, "target_efficiency": (0.3, 0.8)}, "sampler": sampler,
                    "prior_call": {"adaptive": True, "target_efficiency": 0.9}})
    # larger fixed schedules with no environment deviation at all (cheap, catches accumulation errors)
    big = range(14, 65) if tier == "quick" else range(14, 301)
    for n in big:
        out.append({"N": 2, "opts": {"adaptive": False, "n_steps": n}, "sampler": "smc", "bound": 0, "horizon": 400})
    return out


def run_tree(cfg):
    r = Report()
    bound = cfg.get("bound", 2)
    n = 0
    for ex in explorer.explore(lambda ctx: run_execution(ctx, cfg), bound=bound, weighted=False):
        rec = ex.result
        n += 1
        h = rec["history"]
        betas = tuple(h["beta"]) if h else ()
        nontrivial = len(betas) > 1 or rec["init"] != "flat" or any(p != "flat" for p in rec["pops"])
        r.case(explorer.digest([cfg, ex.choices]), nontrivial=nontrivial)
        r.outcomes.add(explorer.digest([betas, rec["exception"][0] if rec["exception"] else None]))
        for pos, key in ex.keys:
            r.states.add(explorer.digest(key))
        prev = None
        for pos, key in ex.keys:
            k = explorer.digest(key)
            if prev is not None:
                r.transitions.add((prev[1], explorer.digest(ex.choices[prev[0]:pos]), k))
            prev = (pos, k)
        for sig, detail in check_schedule(rec):
            r.violation(sig, detail, {"cfg": cfg, "choices": ex.choices})
        if cfg.get("prior_call"):
            # differential: whatever the sampler object did before, the schedule of this run is the schedule of the
            # same run (same environment answers) on a fresh object
            fresh_cfg = {k: v for k, v in cfg.items() if k != "prior_call"}
            ex2 = explorer.run_one(lambda ctx: run_execution(ctx, fresh_cfg), ex.choices)
            rec2 = ex2.result
            b2 = tuple(rec2["history"]["beta"]) if rec2["history"] else ()
            e1 = rec["exception"][0] if rec["exception"] else None
            e2 = rec2["exception"][0] if rec2["exception"] else None
            r.case(explorer.digest([fresh_cfg, ex.choices, "fresh-twin"]), nontrivial=nontrivial)
            if betas != b2 or e1 != e2:
                r.violation("C06/schedule-differs-from-fresh-sampler-object", {"reused": list(betas)[-4:], "fresh": list(b2)[-4:],
                                                                                  "exception_reused": e1, "exception_fresh": e2},
                            {"cfg": cfg, "choices": ex.choices})
    r.sample({"cfg": cfg, "executions": n})
    r.count("option_configs")
    return r.dump()


def run_continued(arg):
    """A run that the step cap ended below temperature 1 is continued from its last checkpoint with another schedule
    (continuous 2-D problem): the temperatures of the whole record still increase strictly and end at 1."""
    from env import resume_harness as rh

    first, second, sampler = arg
    r = Report()
    case = {"continued": True, "first": first, "second": second, "sampler": sampler}
    base = {"sampler": sampler, "N": 8, "cadence": 1, "n_final": None, "precond": "none", "seed": 0}
    A = rh.run(dict(base, opts=first))
    r.case(explorer.digest(case), nontrivial=True)
    if A.exception is not None or not A.sink:
        r.violation(f"C06/continued/first-leg-raises/{A.exception[0] if A.exception else 'no-checkpoint'}", A.exception, case)
        return r.dump()
    b1 = A.history["beta"]
    if b1[-1] >= 1.0:
        raise explorer.HarnessError(f"first leg was meant to stop below 1: {b1}")
    Bn = rh.run(dict(base, opts=second), resume_from=A.sink[-1][1])
    if Bn.exception is not None:
        r.violation(f"C06/continued/second-leg-raises/{Bn.exception[0]}/{Bn.exception[1] if len(Bn.exception) > 2 else ''}", Bn.exception, case)
        return r.dump()
    betas = Bn.history["beta"]
    r.outcomes.add(explorer.digest(betas))
    if betas[: len(b1)] != b1:
        r.violation("C06/continued/earlier-temperatures-rewritten", {"first_leg": b1, "record": betas}, case)
    prev = 0.0
    for t, b in enumerate(betas):
        if not (0.0 < b <= 1.0):
            r.violation("C06/continued/beta-out-of-range", {"t": t, "beta": b, "record": betas}, case)
        if not b > prev:
            r.violation("C06/continued/not-strictly-increasing", {"t": t, "beta": b, "prev": prev, "record": betas}, case)
            break
        prev = b
    if betas[-1] != 1.0:
        r.violation("C06/continued/final-beta-not-1", {"record": betas}, case)
    if second.get("min_step"):
        # the floor given to the continuing call is honoured by every step it takes (the last one may be cut at 1)
        rest = [b1[-1]] + betas[len(b1):]
        for t in range(1, len(rest)):
            if rest[t] < 1.0 and (rest[t] - rest[t - 1]) < second["min_step"] * (1 - 1e-12):
                r.violation("C06/continued/min_step-not-honoured", {"step": rest[t] - rest[t - 1], "min_step": second["min_step"], "record": betas}, case)
                break
    if not second.get("adaptive", True):
        # a fixed continuation advances by 1/n_steps from where the first leg stopped (the last step may be shorter)
        step = 1.0 / second["n_steps"]
        rest = [b1[-1]] + betas[len(b1):]
        for t in range(1, len(rest) - 1):
            if abs((rest[t] - rest[t - 1]) - step) > 1e-12:
                r.violation("C06/continued/fixed-step-not-1-over-n", {"step": rest[t] - rest[t - 1], "want": step, "record": betas}, case)
                break
    r.sample(case)
    return r.dump()


def run(tier, seed, workers):
    cfgs = configs(tier)
    if tier == "thorough":
        for c in cfgs:
            c.setdefault("bound", 3 if c["opts"].get("adaptive", True) else 2)
    rep = Report()
    for d in pmap("checks.c06", "run_tree", cfgs, workers):
        rep.merge(d)
    cont = []
    for first in ({"adaptive": True, "target_efficiency": 0.9, "min_step": 0.05, "max_n_steps": 2}, {"adaptive": False, "n_steps": 7, "max_n_steps": 2},
                  {"adaptive": False, "n_steps": 3, "max_n_steps": 2}):
        for second in ({"adaptive": False, "n_steps": 5}, {"adaptive": False, "n_steps": 7}, {"adaptive": True, "target_efficiency": 0.8},
                       {"adaptive": True, "target_efficiency": 0.95, "min_step": 0.2}):
            cont.append((first, second, "smc"))
    for d in pmap("checks.c06", "run_continued", cont, workers):
        rep.merge(d)
    return rep


def _fix(cfg):
    o = cfg["opts"]
    if isinstance(o.get("target_efficiency"), list):
        o["target_efficiency"] = tuple(o["target_efficiency"])
    return cfg


def replay(case):
    r = Report()
    if case.get("continued"):
        r.merge(run_continued((case["first"], case["second"], case["sampler"])))
        return r
    cfg = _fix(case["cfg"])
    ex = explorer.run_one(lambda ctx: run_execution(ctx, cfg), case["choices"])
    r.case("replay")
    for sig, detail in check_schedule(ex.result):
        r.violation(sig, detail, case)
    return r
