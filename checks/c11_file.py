"""C11, resume-from-file constructor route (needs a real, saved flow)."""
import os
import shutil
import tempfile

import numpy as np

from env import get_xp, tonp
from env import resume_harness as rh
from env.targets import InjectedFault, Monitor
from mc import explorer
from mc.report import Report


def make(cfg, mon, flow=None):
    from aspire import Aspire

    p = rh.problem(cfg["precond"])
    a = Aspire(log_likelihood=mon.log_likelihood, log_prior=mon.log_prior, dims=2, parameters=p["parameters"],
               prior_bounds=p["bounds"], periodic_parameters=p["periodic"], xp=get_xp("numpy"), flow_backend="zuko")
    return a, p


def one_run(cfg, path, fault_at=None, resume=False, train=None, in_context=False, finish_resume=False, resume_kwargs=None):
    """Run through Aspire.sample_posterior(checkpoint_path=path) with a zuko flow."""
    import _kernel
    import orng
    import torch
    from aspire import Aspire
    from aspire.samples import Samples

    p = rh.problem(cfg["precond"])
    _kernel.reset(mode="prw", scale=0.6, horizon=200)
    orng.CONFIG["factory"] = None
    orng.CONFIG["seed"] = cfg["seed"]
    mon = Monitor(p["like"], p["prior"], "numpy", fault_at=fault_at, keep_points=False)
    kw = dict(cfg["opts"])
    if cfg.get("n_final") is not None:
        kw["n_final_samples"] = cfg["n_final"]
    pk = dict(p["pk"]) if p["pk"] else None
    out = rh.Run()
    out.exception, out.result = None, None
    try:
        if resume:
            extra = {"resume_kwargs": dict(resume_kwargs)} if resume_kwargs else {}
            a = Aspire.resume_from_file(path, log_likelihood=mon.log_likelihood, log_prior=mon.log_prior, **extra)
        else:
            a, _ = make(cfg, mon)
            rng = np.random.default_rng(cfg["seed"] + 7)
            lo = np.array([p["bounds"][k][0] for k in p["parameters"]])
            hi = np.array([p["bounds"][k][1] for k in p["parameters"]])
            x = lo + (hi - lo) * (0.25 + 0.5 * rng.uniform(size=(64, 2)))
            if in_context:
                # everything inside one auto_checkpoint context: the fit writes a config (without sampler) first
                with a.auto_checkpoint(path, every=cfg["cadence"]):
                    a.fit(Samples(x=x, parameters=p["parameters"], xp=get_xp("numpy")), n_epochs=2, batch_size=32)
                    torch.manual_seed(cfg["seed"])
                    out.aspire = a
                    res = a.sample_posterior(n_samples=cfg["N"], sampler="smc", preconditioning=p["preconditioning"],
                                             preconditioning_kwargs=pk, sampler_kwargs={"n_steps": 2}, **kw)
                out.result = {"final": rh.snapshot_samples(res), "log_evidence": float(tonp(res.log_evidence)),
                              "log_evidence_error": float(tonp(res.log_evidence_error))}
                raise StopIteration
            a.fit(Samples(x=x, parameters=p["parameters"], xp=get_xp("numpy")), n_epochs=2, batch_size=32)
            torch.manual_seed(cfg["seed"])
        if resume and finish_resume:
            # the documented resume route: no sampler argument, everything comes from the file
            res = a.sample_posterior(preconditioning=p["preconditioning"], preconditioning_kwargs=pk,
                                     sampler_kwargs={"n_steps": 2}, **kw)
        else:
            res = a.sample_posterior(n_samples=cfg["N"], sampler="smc", preconditioning=p["preconditioning"],
                                     preconditioning_kwargs=pk, checkpoint_path=path, checkpoint_every=cfg["cadence"],
                                     sampler_kwargs={"n_steps": 2}, **kw)
        out.result = {"final": rh.snapshot_samples(res), "log_evidence": float(tonp(res.log_evidence)),
                      "log_evidence_error": float(tonp(res.log_evidence_error))}
    except StopIteration:
        pass
    except InjectedFault as e:
        out.exception = ("InjectedFault", str(e))
    except Exception as e:
        from env import exc_site

        out.exception = (type(e).__name__, exc_site(e), str(e)[:200])
    out.aspire = a if "a" in dir() else None
    smp = out.aspire.sampler if out.aspire is not None else None
    out.history = rh.snapshot_history(smp.history) if smp is not None and smp.history is not None else None
    out.n_calls = mon.n_calls
    out.sampler = smp
    return out


def run_config(cfg):
    rep = Report()
    tier = cfg.pop("_tier", "quick")
    tmpdir = tempfile.mkdtemp(prefix="c11f_")
    try:
        ref_path = os.path.join(tmpdir, "ref.h5")
        R = one_run(cfg, ref_path)
        if R.exception is not None:
            rep.case(explorer.digest(["ref", cfg]))
            rep.violation(f"C11/run-raises/resume_from_file-route/{R.exception[0]}/{R.exception[1]}", R.exception, {"cfg": cfg})
            return rep.dump()
        K = R.n_calls
        iters = len(R.history["beta"])
        step = 1 if tier == "thorough" else 2
        for k in range(0, K, step):
            path = os.path.join(tmpdir, f"f{k}.h5")
            F = one_run(cfg, path, fault_at=k)
            if F.exception is None:
                raise explorer.HarnessError("fault did not surface")
            case = {"cfg": cfg, "crash_point": k, "route": "resume_from_file"}
            if F.exception[0] != "InjectedFault":
                rep.case(explorer.digest([cfg, k, "file"]))
                rep.violation(f"C11/run-raises/resume_from_file-route/{F.exception[0]}/{F.exception[1]}", F.exception, case)
                continue
            import h5py

            with h5py.File(path, "r") as f:
                has_ck = "checkpoint" in f and "state" in f["checkpoint"]
            rep.case(explorer.digest([cfg, k, "file"]), nontrivial=has_ck)
            if not has_ck:
                continue
            try:
                r = one_run(cfg, path, resume=True)
            except Exception as e:
                import traceback

                tb = traceback.extract_tb(e.__traceback__)
                site = next((f"{t.filename.split('/')[-1]}:{t.name}" for t in reversed(tb) if "/aspire/" in t.filename), "?")
                rep.violation(f"C11/resume-raises/resume_from_file/{type(e).__name__}/{site}", repr(e)[:300], case)
                continue
            if r.exception is not None:
                rep.violation(f"C11/resume-raises/resume_from_file/{r.exception[0]}", r.exception, case)
                continue
            d = rh.diff(rh.summary(R), rh.summary(r))
            if d:
                from checks.c11 import norm_path

                rep.violation(f"C11/resumed-run-differs/resume_from_file/{norm_path(d)}",
                              {"first_difference": d, "ref_betas": R.history["beta"], "got_betas": r.history["beta"]}, case)
        rep.sample({"cfg": cfg, "calls": K, "iterations": iters, "route": "resume_from_file"})
        rep.count("file_route_configs")
    finally:
        shutil.rmtree(tmpdir, ignore_errors=True)
    return rep.dump()


def configs(tier, seed):
    from checks.c11 import SCHEDULES

    out = []
    for sname in ("adaptive", "fixed3") if tier == "quick" else ("adaptive", "fixed3", "min_step", "max_n", "ramp"):
        for cadence in (1, 2):
            for precond in ("none", "logit_affine") if tier == "quick" else ("none", "periodic", "logit_affine"):
                out.append({"sampler": "smc", "N": 8, "opts": dict(SCHEDULES[sname]), "cadence": cadence, "n_final": None,
                            "precond": precond, "seed": 0, "sched": sname, "_tier": tier})
    return out
