"""C03 The fitted proposal is a normalised density; sampling and evaluation agree.

Configuration-grid enumeration (back-end x bounded transform x affine x dtype x
dims x training set x stage) with deterministic quadrature of exp(log_prob)
over the whole support (panels: Gauss-Legendre in the bulk, double-exponential
rules towards the bounds / tails; accepted only when refinement is stable) and
pointwise agreement between the log-density returned with the draws and
log_prob evaluated at those draws."""
import itertools
import math
import os
import shutil
import tempfile

import h5py
import numpy as np

from env import get_dtype, get_xp, tonp
from mc import explorer
from mc.par import pmap
from mc.report import Report

LEVEL = "exploration"
RULE = ("flow back-end {zuko MAF, flowjax MAF} x bounded transform {logit, probit, off} x affine {on, off} x dtype {float32, "
        "float64} x dims {1,2} x training set {centred, piled against the upper bound, narrow (sigma = 1e-2 width)} x stage "
        "{trained, trained->saved->loaded, trained twice on different data (refit), refit->saved->loaded} (+ Aspire-built default flow, also with periodic parameters declared, and Aspire.sample_flow); for each: quadrature of "
        "exp(log_prob) over the support = 1, every row of sample_and_log_prob(256) has log q == log_prob(x), draws inside the "
        "bounds. Plus the continuous flow (zuko, flow_matching=True) x bounded transform x dtype x dims: two log_prob calls on the same points agree exactly, "
        "returned log q == log_prob to the ODE solver's tolerance, draws inside the bounds, 1-D quadrature = 1. non-trivial = configuration with at least one data transform; distinct = distinct configuration")
ASSUMPTIONS = [
    "network weights are whatever 2 epochs from a fixed seed produce (normalisation is an identity of the architecture)",
    "quadrature is trusted only when doubling the nodes changes it by < 1e-5; otherwise the case is reported as undecided, never as a violation",
    "rows inside the documented clipping margin (1e-6 of the unit interval) are exempt from pointwise agreement",
]

LO, HI = np.array([-2.0, 10.0]), np.array([6.0, 10.5])
CLIP = 1e-6


def training(kind, d, rng):
    lo, hi = LO[:d], HI[:d]
    w = hi - lo
    n = 160
    if kind == "centred":
        x = lo + w * (0.5 + 0.12 * rng.normal(size=(n, d)))
    elif kind == "piled":
        x = hi - w * np.abs(0.06 * rng.normal(size=(n, d))) - 1e-4 * w
    else:
        x = lo + w * (0.4 + 0.01 * rng.normal(size=(n, d)))
    return np.clip(x, lo + 1e-5 * w, hi - 1e-5 * w)


def gl_nodes(a, b, n):
    t, wt = np.polynomial.legendre.leggauss(n)
    return 0.5 * (a + b) + 0.5 * (b - a) * t, 0.5 * (b - a) * wt


def de_nodes(a, b, h, tmax=3.4):
    """Double-exponential (tanh-sinh) rule on [a,b]."""
    k = int(tmax / h)
    t = h * np.arange(-k, k + 1)
    u = 0.5 * math.pi * np.sinh(t)
    x = 0.5 * (a + b) + 0.5 * (b - a) * np.tanh(u)
    w = 0.5 * (b - a) * 0.5 * math.pi * np.cosh(t) / np.cosh(u) ** 2 * h
    keep = (x > a) & (x < b)
    return x[keep], w[keep]


def rule_1d(lo, hi, a, b, level, bounded):
    """Nodes/weights covering [lo,hi] (bounded) or [a-T, b+T] (unbounded) with the bulk window [a,b]."""
    n = 64 * level
    xs, ws = [], []
    x, w = gl_nodes(a, b, 2 * n)
    xs.append(x)
    ws.append(w)
    if bounded:
        for p, q in ((lo, a), (b, hi)):
            if q > p:
                x, w = de_nodes(p, q, 0.12 / level)
                xs.append(x)
                ws.append(w)
    else:
        width = b - a
        for p, q in ((a - 8 * width, a), (b, b + 8 * width)):
            x, w = gl_nodes(p, q, n)
            xs.append(x)
            ws.append(w)
    return np.concatenate(xs), np.concatenate(ws)


def integrate(logp, d, lo, hi, draws, bounded, level):
    rules = []
    for k in range(d):
        m, s = np.median(draws[:, k]), draws[:, k].std() + 1e-12 * (hi[k] - lo[k])
        a, b = draws[:, k].min() - 4 * s, draws[:, k].max() + 4 * s
        if bounded:
            a, b = max(a, lo[k] + 1e-9 * (hi[k] - lo[k])), min(b, hi[k] - 1e-9 * (hi[k] - lo[k]))
        rules.append(rule_1d(lo[k], hi[k], a, b, level, bounded))
    if d == 1:
        x, w = rules[0]
        val = logp(x.reshape(-1, 1))
        return float(np.sum(np.exp(val) * w))
    X0, X1 = np.meshgrid(rules[0][0], rules[1][0], indexing="ij")
    W = np.outer(rules[0][1], rules[1][1])
    pts = np.stack([X0.ravel(), X1.ravel()], axis=1)
    vals = np.concatenate([logp(pts[i:i + 40000]) for i in range(0, len(pts), 40000)])
    return float(np.sum(np.exp(vals) * W.ravel()))


def build_flow(backend, bounded, affine, dt, d, seed, eps_dt=1e-6):
    from aspire.flows import get_flow_wrapper
    from aspire.transforms import FlowTransform

    F, fxp = get_flow_wrapper(backend)
    # parameter names whose alphabetical order differs from their position, bounds given in another order
    params = ["zeta", "alpha"][:d]
    pb = {p: [float(l), float(h)] for p, l, h in reversed(list(zip(params, LO[:d], HI[:d])))}
    ns = "torch" if backend == "zuko" else "jax"
    dtf = FlowTransform(parameters=params, prior_bounds=pb if bounded != "off" else None, bounded_to_unbounded=bounded != "off",
                        bounded_transform=bounded if bounded != "off" else "logit", affine_transform=affine, xp=fxp,
                        dtype=get_dtype(ns, dt), eps=eps_dt)
    if backend == "zuko":
        return F(dims=d, seed=seed, dtype=dt, data_transform=dtf, hidden_features=[16, 16], transforms=2), F
    import jax

    return F(dims=d, key=jax.random.key(seed), dtype=dt, data_transform=dtf, nn_width=8, nn_depth=1, flow_layers=2), F


def run_config(cfg):
    backend, bounded, affine, dt, d, data, stage, seed = cfg[:8]
    eps_dt = cfg[8] if len(cfg) > 8 else 1e-6  # clipping margin of the data transform (default 1e-6)
    r = Report()
    case = {"backend": backend, "bounded": bounded, "affine": affine, "dtype": dt, "dims": d, "data": data, "stage": stage, "seed": seed,
            "eps": eps_dt}
    r.case(explorer.digest(case), nontrivial=bounded != "off" or affine)
    tmp = None
    try:
        rng = np.random.default_rng(seed)
        x = training(data, d, rng)
        if stage.startswith("aspire"):
            from aspire import Aspire
            from aspire.samples import Samples

            params = ["zeta", "alpha"][:d]
            a = Aspire(log_likelihood=lambda s: 0, log_prior=lambda s: 0, dims=d, parameters=params,
                       prior_bounds={p: [float(l), float(h)] for p, l, h in reversed(list(zip(params, LO[:d], HI[:d])))} if bounded != "off" else None,
                       bounded_to_unbounded=bounded != "off", bounded_transform=bounded if bounded != "off" else "logit",
                       periodic_parameters=[params[-1]] if stage == "aspire-periodic" else None,  # declared for the samplers; the proposal must stay a density on the box
                       flow_backend=backend, dtype=dt, xp=get_xp("numpy"), **({"seed": seed, "hidden_features": [16, 16], "transforms": 2} if backend == "zuko" else {}))
            if backend == "zuko":
                a.fit(Samples(x=x, parameters=params, xp=get_xp("numpy")), n_epochs=2, batch_size=64)
            else:
                a.fit(Samples(x=x, parameters=params, xp=get_xp("numpy")), max_epochs=2, batch_size=64, show_progress=False)
            flow = a.flow
        else:
            flow, F = build_flow(backend, bounded, affine, dt, d, seed, eps_dt)
            if stage in ("refit", "refit-loaded"):
                # non-initial state: the same flow object was trained before on data of another location/spread
                x0 = training("narrow" if data != "narrow" else "centred", d, rng)
                if backend == "zuko":
                    flow.fit(x0, n_epochs=1, batch_size=64)
                else:
                    flow.fit(x0, max_epochs=1, batch_size=64, show_progress=False)
                _ = flow.log_prob(x0[:4])  # the density has been evaluated (and whatever that sets up exists) before the second fit
            if backend == "zuko":
                flow.fit(x, n_epochs=2, batch_size=64)
            else:
                flow.fit(x, max_epochs=2, batch_size=64, show_progress=False)
            if stage in ("loaded", "refit-loaded"):
                tmp = tempfile.mkdtemp(prefix="c03_")
                with h5py.File(os.path.join(tmp, "f.h5"), "w") as f:
                    flow.save(f, "flow")
                with h5py.File(os.path.join(tmp, "f.h5"), "r") as f:
                    flow = F.load(f, "flow")
        if backend == "zuko":
            import torch

            torch.manual_seed(seed + 1)
        xs, lq = flow.sample_and_log_prob(256)
        xs_np = tonp(xs).astype(np.float64)
        lq_np = tonp(lq).astype(np.float64)
        lp_np = tonp(flow.log_prob(xs)).astype(np.float64)
    except Exception as e:
        from env import exc_site

        r.violation(f"C03/{backend}/raises/{type(e).__name__}/{exc_site(e)}/{stage}", repr(e)[:300], case)
        if tmp:
            shutil.rmtree(tmp, ignore_errors=True)
        return r.dump()
    lo, hi = LO[:d], HI[:d]
    f32 = dt == "float32"
    # (iii) bounds
    if bounded != "off":
        if np.any(xs_np < lo) or np.any(xs_np > hi):
            r.violation(f"C03/{backend}/draw-outside-bounds/{bounded}", {"min": xs_np.min(0).tolist(), "max": xs_np.max(0).tolist()}, case)
    # (ii) pointwise agreement, except rows inside the clipping margin
    tt = (xs_np - lo) / (hi - lo)
    margin = max(CLIP, eps_dt) * (30 if f32 else 1.5)
    inside = np.all((tt > margin) & (tt < 1 - margin), axis=1) if bounded != "off" else np.ones(len(xs_np), dtype=bool)
    # rounding-aware: near a bound d(log q)/dx ~ 1/(distance to bound)
    eps = 1.2e-7 if f32 else 2.3e-16
    if bounded != "off":
        cond = (np.abs(xs_np) + np.abs(lo) + np.abs(hi)).max(1) / np.minimum(xs_np - lo, hi - xs_np).min(1).clip(1e-300)
    else:
        cond = np.ones(len(xs_np))
    tol = 64 * eps * (1 + np.abs(lp_np)) * (1 + cond) + (2e-4 if f32 else 1e-9)
    # a narrow training set makes the density steep: d(log q)/dx ~ |z|/std, and x itself is only known to one ulp
    sd = xs_np.std(0) + 1e-300
    zz = np.abs(xs_np - xs_np.mean(0)) / sd
    ulp_x = np.spacing(np.abs(xs_np).astype(np.float32 if f32 else np.float64)).astype(np.float64)
    tol = tol + 8 * (ulp_x * (1 + zz) / sd).sum(1)
    bad = inside & ~(np.abs(lq_np - lp_np) <= tol)
    r.count("rows_compared", int(inside.sum()))
    r.count("rows_in_clipping_margin", int((~inside).sum()))
    if np.any(bad):
        i = int(np.argmax(bad))
        r.violation(f"C03/{backend}/sample-logq-differs-from-log_prob/{bounded}/affine={affine}",
                    {"row": i, "x": xs_np[i].tolist(), "returned": lq_np[i], "log_prob": lp_np[i], "tol": float(tol[i]), "n_bad": int(bad.sum())}, case)
    if stage.startswith("aspire"):
        try:
            if backend == "zuko":
                import torch

                torch.manual_seed(seed + 1)
            s = a.sample_flow(64)
            got = tonp(s.log_q).astype(np.float64)
            want = tonp(a.flow.log_prob(s.x)).astype(np.float64)
            ttx = (tonp(s.x).astype(np.float64) - lo) / (hi - lo)
            ok_rows = np.all((ttx > margin) & (ttx < 1 - margin), axis=1) if bounded != "off" else np.ones(len(got), dtype=bool)
            if np.any(ok_rows & ~(np.abs(got - want) <= 1e-3 * (1 + np.abs(want)))):
                r.violation(f"C03/{backend}/sample_flow-logq-differs-from-log_prob", None, case)
        except Exception as e:
            from env import exc_site

            r.violation(f"C03/{backend}/sample_flow-raises/{type(e).__name__}/{exc_site(e)}", repr(e)[:200], case)
    # (i) normalisation
    def logp(pts):
        v = tonp(flow.log_prob(pts)).astype(np.float64)
        return np.where(np.isnan(v), -np.inf, v)

    if not (f32 and data == "narrow" and False):
        try:
            I1 = integrate(logp, d, lo, hi, xs_np, bounded != "off", 1)
            I2 = integrate(logp, d, lo, hi, xs_np, bounded != "off", 2)
        except Exception as e:
            from env import exc_site

            r.violation(f"C03/{backend}/log_prob-raises-on-grid/{type(e).__name__}/{exc_site(e)}", repr(e)[:200], case)
            I1 = I2 = None
        if I1 is not None:
            resolved = abs(I1 - I2) < (1e-5 if not f32 else 5e-4)
            r.outcomes.add(round(I2, 4))
            if not resolved:
                r.count("quadrature-undecided")
            else:
                r.count("quadrature-resolved")
                tol_i = 2e-3 if f32 else 1e-4
                if abs(I2 - 1.0) > tol_i:
                    r.violation(f"C03/{backend}/not-normalised/{bounded}/affine={affine}", {"integral": I2, "coarser": I1}, case)
    if tmp:
        shutil.rmtree(tmp, ignore_errors=True)
    r.sample(dict(case, integral=None if "I2" not in dir() else I2))
    return r.dump()


def run_flow_matching(cfg):
    """The continuous flow (flow_matching=True; the density comes from integrating an ODE): log_prob is a function of the
    point (two calls agree exactly), the log q returned with a draw is the density at that draw (to the ODE solver's
    tolerance), draws stay inside the bounds, and in one dimension the density integrates to one."""
    bounded, dt, d, seed = cfg
    r = Report()
    case = {"flow_matching": True, "bounded": bounded, "dtype": dt, "dims": d, "seed": seed}
    r.case(explorer.digest(case), nontrivial=True)
    try:
        import torch

        from aspire.flows import get_flow_wrapper
        from aspire.transforms import FlowTransform

        F, fxp = get_flow_wrapper("zuko", flow_matching=True)
        params = ["zeta", "alpha"][:d]
        pb = {p: [float(l), float(h)] for p, l, h in reversed(list(zip(params, LO[:d], HI[:d])))}
        dtf = FlowTransform(parameters=params, prior_bounds=pb if bounded != "off" else None, bounded_to_unbounded=bounded != "off",
                            bounded_transform=bounded if bounded != "off" else "logit", affine_transform=True, xp=fxp,
                            dtype=get_dtype("torch", dt))
        flow = F(dims=d, seed=seed, dtype=dt, data_transform=dtf, hidden_features=[16, 16])
        x = training("centred", d, np.random.default_rng(seed))
        flow.fit(x, n_epochs=2, batch_size=64)
        torch.manual_seed(seed + 1)
        xs, lq = flow.sample_and_log_prob(48)
        torch.manual_seed(seed + 2)
        lp1 = tonp(flow.log_prob(xs)).astype(np.float64)
        lp2 = tonp(flow.log_prob(xs)).astype(np.float64)
        xs_np, lq_np = tonp(xs).astype(np.float64), tonp(lq).astype(np.float64)
    except Exception as e:
        from env import exc_site

        r.violation(f"C03/zuko-flow-matching/raises/{type(e).__name__}/{exc_site(e)}", repr(e)[:300], case)
        return r.dump()
    lo, hi = LO[:d], HI[:d]
    f32 = dt == "float32"
    if bounded != "off" and (np.any(xs_np < lo) or np.any(xs_np > hi)):
        r.violation(f"C03/zuko-flow-matching/draw-outside-bounds/{bounded}", {"min": xs_np.min(0).tolist(), "max": xs_np.max(0).tolist()}, case)
    if not np.array_equal(lp1, lp2):
        r.violation("C03/zuko-flow-matching/log_prob-not-a-function-of-the-point", {"max_difference_between_two_calls": float(np.nanmax(np.abs(lp1 - lp2)))}, case)
    tt = (xs_np - lo) / (hi - lo)
    margin = CLIP * (30 if f32 else 1.5)
    inside = np.all((tt > margin) & (tt < 1 - margin), axis=1) if bounded != "off" else np.ones(len(xs_np), dtype=bool)
    tol = 5e-3 * (1 + np.abs(lp1))  # the solver's tolerances, forward and backward
    bad = inside & ~(np.abs(lq_np - lp1) <= tol)
    r.count("rows_compared", int(inside.sum()))
    r.outcomes.add(("fm", bounded, dt, d, round(float(np.max(np.abs(lq_np - lp1)[inside])), 3) if inside.any() else None))
    if np.any(bad):
        i = int(np.argmax(bad))
        r.violation(f"C03/zuko-flow-matching/sample-logq-differs-from-log_prob/{bounded}",
                    {"row": i, "returned": lq_np[i], "log_prob": lp1[i], "n_bad": int(bad.sum())}, case)
    if d == 1:
        def logp(pts):
            v = tonp(flow.log_prob(pts)).astype(np.float64)
            return np.where(np.isnan(v), -np.inf, v)

        try:
            I1 = integrate(logp, d, lo, hi, xs_np, bounded != "off", 1)
            I2 = integrate(logp, d, lo, hi, xs_np, bounded != "off", 2)
            if abs(I1 - I2) < 1e-3:
                r.count("quadrature-resolved")
                if abs(I2 - 1.0) > 1e-2:
                    r.violation(f"C03/zuko-flow-matching/not-normalised/{bounded}", {"integral": I2, "coarser": I1}, case)
            else:
                r.count("quadrature-undecided")
        except Exception as e:
            from env import exc_site

            r.violation(f"C03/zuko-flow-matching/log_prob-raises-on-grid/{type(e).__name__}/{exc_site(e)}", repr(e)[:200], case)
    r.sample(case)
    return r.dump()


def fm_configs(tier):
    return [(b, dt, d, sd) for sd in ((0,) if tier == "quick" else (0, 1, 2)) for b in ("logit", "probit", "off") for dt in ("float64", "float32") for d in (1, 2)]


def configs(tier, seed):
    out = []
    seeds = [0] if tier == "quick" else [0, 1, 2]
    for backend in ("zuko", "flowjax"):
        for bounded, affine, dt, d, data, stage in itertools.product(("logit", "probit", "off"), (True, False), ("float64", "float32"),
                                                                      (1, 2), ("centred", "piled", "narrow"), ("trained", "loaded")):
            if bounded == "off" and not affine and data != "centred":
                continue  # raw flow on un-standardised data far from the origin: nothing of aspire's is exercised
            if tier == "quick":
                if backend == "flowjax":
                    if not (dt == "float64" and d == 1 and data == "centred" and stage == "trained" or
                            (bounded == "logit" and affine and dt == "float64" and d == 2 and data == "piled" and stage == "loaded")):
                        continue
                else:
                    if d == 2 and (dt == "float32" or data == "narrow" or stage == "loaded"):
                        continue
                    if stage == "loaded" and (data != "piled"):
                        continue
            for sd in seeds:
                out.append((backend, bounded, affine, dt, d, data, stage, sd))
    for bounded in ("logit", "probit", "off"):
        for dt in ("float64", "float32"):
            out.append(("zuko", bounded, True, dt, 2, "centred", "aspire", 0))
        for affine in (True, False):
            out.append(("zuko", bounded, affine, "float64", 1, "centred", "refit", 0))
            out.append(("zuko", bounded, affine, "float64", 1, "piled", "refit-loaded", 0))
    out.append(("flowjax", "logit", True, "float64", 1, "centred", "refit", 0))
    # periodic parameters declared on the Aspire instance (they concern the samplers' preconditioning, not the proposal)
    for bounded in ("logit", "probit"):
        out.append(("zuko", bounded, True, "float64", 2, "piled", "aspire-periodic", 0))
    out.append(("zuko", "logit", True, "float64", 1, "piled", "aspire-periodic", 0))
    # a non-default (large) clipping margin: data well inside the bounds, so the sliver carries no mass
    for bounded in ("logit", "probit"):
        out.append(("zuko", bounded, True, "float64", 1, "centred", "trained", 0, 1e-2))
        out.append(("zuko", bounded, True, "float64", 2, "centred", "loaded", 0, 1e-2))  # affine on: without it the wide base density puts real mass into the clipping sliver
    if tier == "thorough":
        out.append(("flowjax", "logit", True, "float64", 1, "centred", "aspire", 0))
    return out


def run(tier, seed, workers):
    rep = Report()
    cfgs = configs(tier, seed)
    cfgs.sort(key=lambda c: (0 if c[0] == "flowjax" else 1, -c[4]))
    for d in pmap("checks.c03", "run_config", cfgs, workers):
        rep.merge(d)
    for d in pmap("checks.c03", "run_flow_matching", fm_configs(tier), workers):
        rep.merge(d)
    rep.count("configs", len(cfgs))
    return rep


def replay(case):
    r = Report()
    if case.get("flow_matching"):
        r.merge(run_flow_matching((case["bounded"], case["dtype"], case["dims"], case["seed"])))
        return r
    r.merge(run_config((case["backend"], case["bounded"], case["affine"], case["dtype"], case["dims"], case["data"], case["stage"], case["seed"], case.get("eps", 1e-6))))
    return r
