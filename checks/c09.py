"""C09 Resampling selects by incremental weight and copies particles intact.

Every index tuple the generator can return is enumerated for every
(population, temperature pair, size, namespace, dtype) of a finite alphabet."""
import itertools
import math

import numpy as np

from env import get_dtype, get_xp, tonp
from env.choice_rng import ChoiceRNG
from mc import explorer
from mc.par import pmap
from mc.report import Report
from oracles import ref

LEVEL = "exploration"
RULE = ("product of population alphabet (N=2..4, log-weight vectors incl. ties, -inf, 1e3 spreads) x temperature pairs"
        " x requested size x namespace x dtype x {fresh object, object whose diagnostics were evaluated and whose log-likelihood was then re-assigned in place}; for each, every index tuple the generator can return is executed"
        " (explorer over ChoiceRNG.choice); plus explored runs of the real sampler loop (fixed / adaptive / floor+cap schedules, incl. runs the cap ends below temperature 1, x n_final_samples in {none, smaller, larger}): every probability vector handed to the generator is the normalised incremental weight of the step about to be taken.  non-trivial = incremental weights not all equal; distinct = distinct"
        " (population, betas, size, ns, dtype, tuple)")
ASSUMPTIONS = [
    "the generator is a numpy-Generator-like object whose choice(n,size,replace,p) is honest about p",
    "alphabet of log-weight values is finite (listed in checks/c09.py)",
]

A_MENU = {
    2: [(0.0, 0.0), (0.0, -1.0), (math.log(2), 0.0), (-50.0, 0.0), (700.0, -745.0), (0.0, -math.inf), (1e3, 1e3 - 3)],
    3: [(0.0, 0.0, 0.0), (0.0, -1.0, math.log(2)), (-1.0, -1.0, 0.0), (0.0, -math.inf, -1.0), (1e3, 0.0, 1e3 - 3),
        (-3.0, 0.5, 2.0)],
    4: [(0.0, -1.0, math.log(2), -3.0), (0.0, 0.0, -1.0, -1.0), (5.0, -math.inf, 4.0, 4.5), (-30.0, 0.0, -0.5, -1e3)],
}
BETAS = [(0.0, 0.3), (0.3, 1.0), (0.0, 1.0), (0.5, 0.5), (0.25, 0.75), (0.75, 0.25), (1.0, 0.0),  # cooling moves
         (0.4, 0.400003), (0.999991, 1.0)]  # tiny but non-zero moves: still a move, the generator is still asked


def build(a, ns, dt, beta):
    from aspire.samples import SMCSamples

    xp = get_xp(ns)
    n = len(a)
    i = np.arange(n, dtype=np.float64)
    x = np.stack([i, 10 + i], axis=1)
    logq = 0.5 + i
    logpi = 0.25 - 2 * i
    a = np.asarray(a, dtype=np.float64)
    with np.errstate(invalid="ignore"):
        logl = a - logpi + logq
    return SMCSamples(
        x=xp.asarray(x), log_likelihood=xp.asarray(logl), log_prior=xp.asarray(logpi),
        log_q=xp.asarray(logq), beta=beta, xp=xp, dtype=get_dtype(ns, dt), parameters=["p0", "p1"],
    )


def run_config(cfg):
    a, (b0, b1), size, ns, dt = cfg[:5]
    variant = cfg[5] if len(cfg) > 5 else "fresh"
    a = tuple(float(v) for v in a)
    r = Report()
    case = {"a": a, "betas": (b0, b1), "size": size, "ns": ns, "dtype": dt, "variant": variant}
    n = len(a)
    tol = 1e-13 if dt == "float64" else 2e-6

    def body(ctx):
        s = build(a, ns, dt, b0)
        if variant == "reassigned":
            # non-initial state: diagnostics were evaluated for this temperature move and a per-particle
            # field was then re-assigned on the same object (the samplers re-assign fields in place)
            if b1 != b0:
                s.log_weights(b1)
                s.log_evidence_ratio(b1)
            s.log_likelihood = s.log_likelihood + s.array_to_namespace(np.linspace(0.0, 1.5, len(a)))
        rng = ChoiceRNG(ctx, weighted=False)
        out = s.resample(b1, n_samples=size, rng=rng)
        return s, out, rng

    trivial_same = (b0 == b1 and size is None)
    try:
        executions = list(explorer.explore(body))
    except explorer.HarnessError:
        raise
    except Exception as e:  # an exception escaping aspire is a violation of this case
        r.case(explorer.digest(case))
        r.violation(f"C09/exception/{type(e).__name__}", repr(e)[:300], case)
        return r.dump()
    for ex in executions:
        s, out, rng = ex.result
        key = explorer.digest([case, ex.choices])
        stored = {f: tonp(getattr(s, f)).astype(np.float64) for f in ("log_likelihood", "log_prior", "log_q")}
        aa = stored["log_likelihood"] + stored["log_prior"] - stored["log_q"]
        incr = [(b1 - b0) * v if (b1 - b0) != 0 else 0.0 for v in aa]
        r.case(key, nontrivial=len(set(incr)) > 1)
        r.outcomes.add(explorer.digest(tonp(out.x).tolist()))
        c = dict(case, choices=ex.choices)
        if trivial_same:
            if out is not s:
                r.violation("C09/same-beta-no-size/not-identity", "resample(beta==self.beta) must return the same set", c)
            continue
        if len(rng.p_records) != 1:
            r.violation("C09/generator-calls", f"{len(rng.p_records)} choice() calls", c)
            continue
        if not all(rng.replace_flags):
            # independent draws proportional to the weights are draws with replacement, whatever the requested size
            r.violation("C09/drawn-without-replacement", {"replace": rng.replace_flags, "size": size, "n": len(a)}, c)
        nn, sz, p = rng.p_records[0]
        want_size = n if size is None else size
        if nn != n or sz != want_size or len(p) != n:
            r.violation("C09/choice-arguments", {"n": nn, "size": sz, "len_p": len(p), "want": (n, want_size)}, c)
            continue
        pref = ref.normalised(incr)
        # rounding-aware: exp() of a value known to relative eps carries |exponent|*eps
        fin = [v for v in incr if math.isfinite(v)]
        mx = max(fin)
        # and the log-weights themselves are sums of terms of magnitude `scale` (cancellation)
        mags = np.abs(stored["log_likelihood"]) + np.abs(stored["log_prior"]) + np.abs(stored["log_q"])
        scale = 4 * max(abs(b0), abs(b1), abs(b1 - b0)) * float(np.max(mags[np.isfinite(mags)]))
        bad = [j for j in range(n)
               if not ref.close(p[j], pref[j],
                                tol * (1 + scale + (abs(incr[j] - mx) if math.isfinite(incr[j]) else 0)), 1e-30)]
        if bad or abs(float(p.sum()) - 1.0) > 10 * tol * (1 + scale):
            r.violation("C09/probability-vector", {"p": p.tolist(), "ref": [float(v) for v in pref]}, c)
        idx = [sorted(range(n), key=lambda i: (-p[i], i))[ch] for ch in ex.choices]
        if len(out) != want_size:
            r.violation("C09/size", {"len": len(out), "want": want_size}, c)
            continue
        if out.beta != b1:
            r.violation("C09/beta", {"beta": out.beta, "want": b1}, c)
        for f in ("x", "log_likelihood", "log_prior", "log_q"):
            got = tonp(getattr(out, f))
            src = tonp(getattr(s, f))[idx]
            if got.shape != src.shape or not np.array_equal(got, src, equal_nan=True):
                r.violation(f"C09/row-copy/{f}", {"idx": idx, "got": got.tolist(), "src": src.tolist()}, c)
        if str(tonp(out.x).dtype) != dt:
            r.violation("C09/dtype", {"got": str(tonp(out.x).dtype), "want": dt}, c)
        if out.parameters != s.parameters:
            r.violation("C09/parameters", {"got": out.parameters}, c)
    r.sample(case)
    return r.dump()


AS_RUN = [
    {"adaptive": False, "n_steps": 2},
    {"adaptive": True, "target_efficiency": 0.9},
    {"adaptive": True, "target_efficiency": (0.3, 0.8), "min_step": 0.2, "max_n_steps": 3},
    # runs that the step cap ends below temperature 1 (the enlargement is then a real step to 1)
    {"adaptive": False, "n_steps": 3, "max_n_steps": 2},
    {"adaptive": True, "target_efficiency": 0.9, "min_step": 0.2, "max_n_steps": 2},
]


def as_run(cfg):
    """The probability vectors handed to the generator during explored runs of the real sampler loop."""
    from env.schedule_harness import run_execution
    from oracles.smc_oracles import check_resampling

    r = Report()
    for ex in explorer.explore(lambda ctx: run_execution(ctx, cfg), bound=cfg.get("bound", 2)):
        rec = ex.result
        case = {"as_run": True, "cfg": cfg, "choices": ex.choices}
        r.case(explorer.digest(case), nontrivial=rec["history"] is not None and len(rec["history"]["beta"]) > 1)
        for sig, detail in check_resampling(rec):
            r.violation(sig, detail, case)
        if rec["history"]:
            r.outcomes.add(explorer.digest([rec["history"]["beta"], [list(p[2]) for p in rec["p_records"]]]))
    r.sample({"as_run": True, "cfg": cfg})
    return r.dump()


def dispatch(job):
    return globals()[job[0]](job[1])


def configs(tier):
    out = []
    for n, menu in A_MENU.items():
        sizes = [None, 1, 2, n + 1] if n <= 3 else [None, 1, 2]
        for a, b, size in itertools.product(menu, BETAS, sizes):
            if b[0] == b[1] and any(math.isinf(v) for v in a):
                # 0 * (-inf): a zero-weight particle cannot be present in a population that is
                # re-drawn at its own temperature (it has probability 0 of surviving any earlier
                # resampling); aspire rejects this input with ValueError by design
                continue
            for ns in ("numpy", "torch", "jax"):
                for dt in ("float64", "float32"):
                    if tier == "quick" and ns != "numpy" and (n == 4 or (n == 3 and size == 4)):
                        continue
                    if tier == "quick" and ns == "jax" and dt == "float32" and n == 3:
                        continue
                    out.append((a, b, size, ns, dt))
                    if size in (None, 2) and all(math.isfinite(v) for v in a) and (ns == "numpy" or dt == "float64"):
                        out.append((a, b, size, ns, dt, "reassigned"))
    return out


def run(tier, seed, workers):
    cfgs = configs(tier)
    rep = Report()
    for d in pmap("checks.c09", "run_config", cfgs, workers, chunksize=8):
        rep.merge(d)
    rep.count("configs", len(cfgs))
    jobs = []
    for sampler in ("smc", "emcee_smc"):
        for o in AS_RUN:
            if sampler == "emcee_smc" and ("min_step" in o or "max_n_steps" in o):
                continue
            for nf in (None, 3, 6):
                opts = dict(o)
                if nf is not None:
                    opts["n_final_samples"] = nf
                jobs.append({"N": 4 if nf != 3 else 4, "opts": opts, "sampler": sampler, "menu": ["flat", "mild", "peaked"],
                             "max_decisions": 2, "max_resamplings": 2, "bound": 2 if tier == "quick" else 3, "init_dead": False})
    for d in pmap("checks.c09", "as_run", jobs, workers):
        rep.merge(d)
    rep.count("as_run_configs", len(jobs))
    return rep


def replay(case):
    r = Report()
    if case.get("as_run"):
        from checks.c06 import _fix

        r.merge(as_run(_fix(case["cfg"])))
        return r
    cfg = (case["a"], tuple(case["betas"]), case["size"], case["ns"], case["dtype"], case.get("variant", "fresh"))
    cfg = (tuple(-math.inf if v == "-inf" else v for v in cfg[0]),) + cfg[1:]
    r.merge(run_config(cfg))
    return r
