"""C04 Parameter transforms are bijections with exact log-Jacobians.

Small-scope exhaustive enumeration: transform class / composite option
combination x bounds x dimension x batch x positions x namespace x dtype,
compared with analytic (mpmath) maps and log-Jacobians and with the
finite-difference Jacobian of the library's own forward map."""
import itertools
import math

import mpmath as mp
import numpy as np

from env import get_dtype, get_xp, tonp
from mc import explorer
from mc.par import pmap
from mc.report import Report
from oracles import ref as _ref  # noqa: F401  (sets mpmath to 50 digits)

LEVEL = "exploration"
RULE = ("transform in {Identity, Periodic, Logit, Probit, Affine, Composite(periodic subset x bounded_to_unbounded x logit|probit "
        "x affine), FlowTransform, FlowPreconditioningTransform(zuko)} x bounds in {(0,1),(-1e-3,1e-3),(-1e6,1e6),(1e3,1e3+1), widths whose product over-/underflows the dtype (1e200^2, 1e-170^2, 1e15^3, 1e-16^3, 1e3^14),"
        "(-5,20), mixed} x d in {1,2,3} x batch in {1,3,7} x interior positions {2eps,1e-3,0.1,0.5,0.9,1-1e-3,1-2eps} (Latin "
        "arrangement over dimensions) x {numpy,torch,jax} x {float32,float64}; wrapping additionally on {l,u,l-d,u+d,l+-kP,+-1e12}. "
        "One evaluation = one (transform, input batch) with all oracles; non-trivial = non-identity map with a non-constant "
        "log-Jacobian or a wrapped point; distinct = distinct (transform config, bounds, shape, ns, dtype)")
ASSUMPTIONS = [
    "value alphabets are finite (checks/c04.py); tolerances = 8 x (sensitivity of the reference to 1 ulp of the input) + absolute floor",
    "points inside the documented clipping margin (eps=1e-6 of the unit interval) are exempt from the round-trip requirement",
    "finite-difference Jacobians only in float64 and d<=3",
]

BOUNDS = [(0.0, 1.0), (-1e-3, 1e-3), (-1e6, 1e6), (1e3, 1e3 + 1), (-5.0, 20.0), (0.0, 1e-4), (2.0, 2.0 + 1e-5)]  # the last two: widths near / below the clipping constant
TS = [2e-6, 1e-3, 0.1, 0.5, 0.9, 1 - 1e-3, 1 - 2e-6]
EPS = {"float64": 2.3e-16, "float32": 1.2e-7}
CLIP = 1e-6


def positions(batch, d, shift=0):
    """Latin arrangement of the interior positions over rows/dims."""
    return np.array([[TS[(i + 2 * k + shift) % len(TS)] for k in range(d)] for i in range(batch)])


def ref_bounded(kind, x, lo, hi, dts=None):
    """(y, logJ) per row in mpmath for logit/probit on [lo,hi] per dim.
    ``dts`` optionally perturbs the unit-interval coordinate of each dim."""
    ys, lj = [], mp.mpf(0)
    for k, (xv, l, u) in enumerate(zip(x, lo, hi)):
        t = (mp.mpf(float(xv)) - mp.mpf(float(l))) / (mp.mpf(float(u)) - mp.mpf(float(l)))
        if dts is not None:
            t = t + mp.mpf(dts[k])
        t = min(max(t, mp.mpf(CLIP)), 1 - mp.mpf(CLIP))
        w = mp.mpf(float(u)) - mp.mpf(float(l))
        if kind == "logit":
            y = mp.log(t) - mp.log(1 - t)
            lj += -mp.log(w) - mp.log(t) - mp.log(1 - t)
        else:
            y = mp.sqrt(2) * mp.erfinv(2 * t - 1)
            lj += -mp.log(w) + mp.mpf("0.5") * mp.log(2 * mp.pi) + y * y / 2
        ys.append(y)
    return ys, lj


def sens_bounded(kind, x, lo, hi, dt):
    """Sensitivity of (y, logJ) to the rounding of the unit-interval coordinate
    t = (x-l)/(u-l): one ulp of x, l, u and of t itself in the dtype under test."""
    eps = EPS[dt]
    base_y, base_lj = ref_bounded(kind, x, lo, hi)
    sy = [mp.mpf(0)] * len(x)
    sl = mp.mpf(0)
    for k in range(len(x)):
        w = float(hi[k]) - float(lo[k])
        t = (float(x[k]) - float(lo[k])) / w
        dt_abs = eps * (abs(float(x[k])) + abs(float(lo[k])) + abs(float(hi[k]))) / w + 2 * eps * abs(t)
        for sgn in (-1, 1):
            dts = [0.0] * len(x)
            dts[k] = sgn * dt_abs
            y2, l2 = ref_bounded(kind, x, lo, hi, dts)
            sy[k] = max(sy[k], abs(y2[k] - base_y[k]))
            sl = max(sl, abs(l2 - base_lj))
    return [float(v) for v in sy], float(sl)


def fd_logdet(fwd, x_row, h):
    """log|det| of the central-difference Jacobian of fwd at one row (float64)."""
    d = len(x_row)
    J = np.zeros((d, d))
    for j in range(d):
        e = np.zeros(d)
        e[j] = h[j]
        J[:, j] = (fwd(x_row + e) - fwd(x_row - e)) / (2 * h[j])
    sign, ld = np.linalg.slogdet(J)
    return ld


def to_ns(a, ns, dt):
    xp = get_xp(ns)
    return xp.asarray(np.asarray(a, dtype=np.float64), dtype=get_dtype(ns, dt))


def build(spec, ns, dt):
    from aspire import transforms as T

    xp = get_xp(ns)
    dtype = get_dtype(ns, dt)
    kind = spec["kind"]
    d = spec["d"]
    lo = np.array([b[0] for b in spec["bounds"]])
    hi = np.array([b[1] for b in spec["bounds"]])
    if kind == "identity":
        return T.IdentityTransform(xp=xp, dtype=dtype)
    if kind == "periodic":
        return T.PeriodicTransform(lower=lo, upper=hi, xp=xp, dtype=dtype)
    if kind == "logit":
        return T.LogitTransform(lower=lo, upper=hi, xp=xp, dtype=dtype)
    if kind == "probit":
        return T.ProbitTransform(lower=lo, upper=hi, xp=xp, dtype=dtype)
    if kind == "affine":
        return T.AffineTransform(xp=xp, dtype=dtype)
    if spec.get("names") == "unsorted":
        # names whose alphabetical order differs from their position; bounds dict given in reverse order
        params = ["zz", "mm", "aa"][:d]
        pb = {p: [float(l), float(u)] for p, l, u in reversed(list(zip(params, lo, hi)))}
    else:
        params = [f"p{k}" for k in range(d)]
        pb = {p: [float(l), float(u)] for p, l, u in zip(params, lo, hi)}
    if kind == "composite":
        return T.CompositeTransform(parameters=params, periodic_parameters=[params[k] for k in spec["periodic"]],
                                    prior_bounds=pb, bounded_to_unbounded=spec["b2u"], bounded_transform=spec["bt"],
                                    affine_transform=spec["affine"], xp=xp, dtype=dtype)
    if kind == "flowtransform":
        return T.FlowTransform(parameters=params, prior_bounds=pb, bounded_to_unbounded=spec["b2u"],
                               bounded_transform=spec["bt"], affine_transform=spec["affine"], xp=xp, dtype=dtype)
    raise ValueError(kind)


def ref_forward(spec, x_rows, fitted):
    """Reference (y rows as floats, logJ per row as float, sens per row) for any spec."""
    kind = spec["kind"]
    d = spec["d"]
    lo = [b[0] for b in spec["bounds"]]
    hi = [b[1] for b in spec["bounds"]]
    out_y, out_lj = [], []
    for row in x_row_iter(x_rows):
        y = [mp.mpf(float(v)) for v in row]
        lj = mp.mpf(0)
        per = spec.get("periodic", []) if kind in ("composite",) else (list(range(d)) if kind == "periodic" else [])
        for k in per:
            P = mp.mpf(float(hi[k])) - mp.mpf(float(lo[k]))
            y[k] = mp.mpf(float(lo[k])) + ((y[k] - mp.mpf(float(lo[k]))) % P)
        bt = None
        if kind in ("logit", "probit"):
            bt, bdims = kind, list(range(d))
        elif kind in ("composite", "flowtransform") and spec["b2u"]:
            bt, bdims = spec["bt"], [k for k in range(d) if k not in per and math.isfinite(lo[k]) and math.isfinite(hi[k])]
        if bt and bdims:
            ys, l = ref_bounded(bt, [y[k] for k in bdims], [lo[k] for k in bdims], [hi[k] for k in bdims])
            for k, v in zip(bdims, ys):
                y[k] = v
            lj += l
        if kind == "affine" or (kind in ("composite", "flowtransform") and spec["affine"]):
            mean, std = fitted
            for k in range(d):
                y[k] = (y[k] - mp.mpf(float(mean[k]))) / mp.mpf(float(std[k]))
                lj -= mp.log(abs(mp.mpf(float(std[k]))))
        out_y.append([float(v) for v in y])
        out_lj.append(float(lj))
    return np.array(out_y), np.array(out_lj)


def x_row_iter(x):
    for row in np.asarray(x, dtype=np.float64):
        yield row


def run_spec(arg):
    spec, ns, dt = arg
    r = Report()
    eps = EPS[dt]
    d, batch = spec["d"], spec["batch"]
    lo = np.array([b[0] for b in spec["bounds"]], dtype=np.float64)
    hi = np.array([b[1] for b in spec["bounds"]], dtype=np.float64)
    case = {"spec": spec, "ns": ns, "dtype": dt}
    key = explorer.digest(case)
    kind = spec["kind"]
    nontriv = kind != "identity"
    try:
        tr = build(spec, ns, dt)
    except Exception as e:
        r.case(key)
        # float32 cannot represent some intervals: the library documents this as a ValueError
        if isinstance(e, ValueError) and "floating precision" in str(e):
            r.count("interval-too-small-for-dtype")
            return r.dump()
        r.violation(f"C04/{kind}/construct-raises/{type(e).__name__}", repr(e)[:200], case)
        return r.dump()
    t = positions(batch, d, spec.get("shift", 0))
    x64 = lo + t * (hi - lo)
    x = to_ns(x64, ns, dt)
    xs = tonp(x).astype(np.float64)  # stored (rounded) inputs
    r.case(key, nontrivial=nontriv)
    try:
        if spec.get("refit"):
            # non-initial state: the same object was fitted before on other data (SMC refits its
            # preconditioning transform every iteration)
            t0 = 0.5 + 0.2 * (positions(batch, d, spec.get("shift", 0) + 3) - 0.5)
            tr.fit(to_ns(lo + t0 * (hi - lo), ns, dt))
        fitted_out = tonp(tr.fit(x)).astype(np.float64)
        y, lj = tr.forward(x)
        xb, lji = tr.inverse(y)
    except Exception as e:
        from env import exc_site

        r.violation(f"C04/{kind}/raises/{type(e).__name__}/{exc_site(e)}/{ns}", repr(e)[:200], case)
        return r.dump()
    yn, ljn = tonp(y).astype(np.float64), tonp(lj).astype(np.float64).reshape(-1)
    xbn, ljin = tonp(xb).astype(np.float64), tonp(lji).astype(np.float64).reshape(-1)
    r.outcomes.add(explorer.digest([kind, np.round(ljn, 6).tolist()]))
    # dtype of outputs: not part of C04's statement -> observation only (C15 covers precision of sample sets;
    # a log-Jacobian truncated to a narrower width shows up in the value comparisons below)
    for name, arr in (("forward", y), ("inverse", xb), ("forward-logjac", lj), ("inverse-logjac", lji)):
        got = str(tonp(arr).dtype)
        if got != dt:
            r.count(f"observation:{name}-dtype-{dt}->{got}/{ns}")
    # (v) fit returns the forward image after the fit
    if fitted_out.shape != yn.shape or not np.allclose(fitted_out, yn, rtol=64 * eps, atol=64 * eps, equal_nan=True):
        r.violation(f"C04/{kind}/fit-not-forward", {"fit": fitted_out.tolist(), "forward": yn.tolist()}, case)
    fitted = None
    aff = getattr(tr, "_affine_transform", None) if kind in ("composite", "flowtransform") else (tr if kind == "affine" else None)
    if aff is not None and getattr(aff, "_mean", None) is not None:
        fitted = (tonp(aff._mean).astype(np.float64), tonp(aff._std).astype(np.float64))
        if np.any(fitted[1] == 0) or batch == 1:
            r.count("affine-degenerate-batch-skipped")
            return r.dump()
    # the unit-interval coordinate of the stored inputs
    tt = (xs - lo) / (hi - lo)
    bounded = kind in ("logit", "probit") or (kind in ("composite", "flowtransform") and spec["b2u"])
    clipped = bounded and np.any((tt < CLIP * 1.01) | (tt > 1 - CLIP * 1.01))
    if np.any(xs <= lo) or np.any(xs >= hi):
        # the dtype cannot place the interior position strictly inside the interval
        r.count("positions-rounded-onto-a-bound-skipped")
        return r.dump()
    # (ii) analytic reference
    y_ref, lj_ref = ref_forward(spec, xs, fitted)
    stol = np.zeros(batch)
    ytol = np.zeros((batch, d))
    if bounded:
        per = spec.get("periodic", []) if kind == "composite" else []
        bdims = [k for k in range(d) if k not in per]
        bt = kind if kind in ("logit", "probit") else spec["bt"]
        for i in range(batch):
            if bdims:
                sy, sl = sens_bounded(bt, [xs[i, k] for k in bdims], [lo[k] for k in bdims], [hi[k] for k in bdims], dt)
                stol[i] = sl
                for k, v in zip(bdims, sy):
                    ytol[i, k] = v
    scale_aff = 1.0
    if fitted is not None:
        scale_aff = float(np.max(1.0 / np.abs(fitted[1])))
        # sensitivity of the fitted mean/std themselves is shared by library and reference (read back from the library)
    abs_floor = 64 * eps * (1 + np.max(np.abs(lj_ref)))
    if not clipped:
        for i in range(batch):
            tol = 8 * stol[i] + abs_floor
            if not (abs(ljn[i] - lj_ref[i]) <= tol):
                r.violation(f"C04/{kind}/forward-logjac", {"row": i, "got": ljn[i], "ref": lj_ref[i], "tol": tol, "x": xs[i].tolist()}, case)
                break
        ytol_all = 8 * ytol * (scale_aff if fitted is not None else 1.0) + 64 * eps * (1 + np.abs(y_ref)) * (1 + (np.max(np.abs(xs)) * scale_aff if fitted is not None else 0))
        bad = np.abs(yn - y_ref) > ytol_all
        if np.any(bad):
            i, k = np.argwhere(bad)[0]
            r.violation(f"C04/{kind}/forward-value", {"row": int(i), "dim": int(k), "got": yn[i, k], "ref": y_ref[i, k], "tol": ytol_all[i, k]}, case)
        # (iii) inverse log-J is minus forward log-J at the corresponding point
        for i in range(batch):
            tol = 16 * stol[i] + 2 * abs_floor
            if not (abs(ljin[i] + ljn[i]) <= tol):
                r.violation(f"C04/{kind}/inverse-logjac-not-negative-forward", {"row": i, "fwd": ljn[i], "inv": ljin[i], "tol": tol}, case)
                break
        # (i) round trip
        per_all = kind == "periodic"
        xtol = 64 * eps * (np.abs(xs) + np.abs(lo) + np.abs(hi)) + 16 * eps * (hi - lo) / np.minimum(tt, 1 - tt).clip(1e-12) * 0
        # sensitivity of the inverse: dx = (dx/dy) dy with dy ~ eps*|y|
        if bounded:
            dxdy = (hi - lo) * np.minimum(tt, 1 - tt).clip(0)  # <= (u-l) t(1-t) up to a factor
            xtol = xtol + 64 * eps * (1 + np.abs(y_ref if fitted is None else yn)) * dxdy * (1.0 if fitted is None else np.max(np.abs(fitted[1])) / np.min(np.abs(fitted[1])))
        if fitted is not None:
            xtol = xtol + 64 * eps * (np.abs(xs) + np.abs(fitted[0]) + np.abs(fitted[1]) * np.abs(yn))
        bad = np.abs(xbn - xs) > xtol
        if np.any(bad):
            i, k = np.argwhere(bad)[0]
            r.violation(f"C04/{kind}/round-trip", {"row": int(i), "dim": int(k), "x": xs[i, k], "back": xbn[i, k], "tol": xtol[i, k]}, case)
    else:
        r.count("rows-in-clipping-margin-exempt")
    # finite-difference Jacobian of the library's own forward map (float64, numpy values)
    if dt == "float64" and not clipped and kind != "identity":
        def fwd_np(row):
            yy, _ = tr.forward(to_ns(row.reshape(1, -1), ns, dt))
            return tonp(yy).astype(np.float64).reshape(-1)

        for i in range(min(batch, 3)):
            h = 1e-4 * np.minimum(xs[i] - lo, hi - xs[i])
            h = np.maximum(h, 1e4 * np.spacing(np.abs(xs[i]) + 1e-300))
            try:
                ld = fd_logdet(fwd_np, xs[i], h)
            except Exception as e:
                r.violation(f"C04/{kind}/fd-raises/{type(e).__name__}", repr(e)[:200], case)
                break
            # central differences: relative error ~ h^2 f'''/f' ~ 1e-8 * curvature; loose absolute tolerance
            if not (abs(ld - ljn[i]) <= 1e-4 * (1 + abs(ljn[i])) + 8 * stol[i]):
                # ill-conditioned when x is too large to carry the step
                if np.all(h >= 1e4 * np.spacing(np.abs(xs[i]) + 1e-300)) and np.all(h <= 1e-3 * np.minimum(xs[i] - lo, hi - xs[i])):
                    r.violation(f"C04/{kind}/logjac-vs-finite-difference", {"row": i, "fd": ld, "reported": ljn[i], "x": xs[i].tolist()}, case)
                    break
    r.sample(case)
    return r.dump()


def run_wrap(arg):
    """Periodic wrapping on any real number."""
    (lo, hi), ns, dt, via = arg[:4]
    batch = arg[4] if len(arg) > 4 else "mixed"
    from aspire import transforms as T

    r = Report()
    xp = get_xp(ns)
    dtype = get_dtype(ns, dt)
    P = hi - lo
    vals = [lo, hi, lo - 1e-20, hi + 1e-20, lo - 1e-9 * max(1, abs(lo)), hi + 1e-9 * max(1, abs(hi)), lo - 0.25 * P, hi + 0.25 * P,
            lo + P, lo - P, lo + 2 * P, lo - 2 * P, lo + 1000 * P, lo - 1000 * P, 1e12, -1e12, lo + 0.5 * P, lo + 1e-12 * P]
    if batch == "in-range":
        # only values of the closed interval (both end points included): the image of a point does not depend on its batch
        vals = [lo, hi, lo + 0.5 * P, lo + 1e-12 * P, lo + 0.999 * P]
    case = {"bounds": [lo, hi], "ns": ns, "dtype": dt, "via": via, "batch": batch}
    try:
        if via == "periodic":
            tr = T.PeriodicTransform(lower=np.array([lo]), upper=np.array([hi]), xp=xp, dtype=dtype)
        else:
            label = 0 if via == "composite-int" else "p0"  # integer labels are the ones the class's type hints document
            tr = T.CompositeTransform(parameters=[label], periodic_parameters=[label], prior_bounds={label: [lo, hi]},
                                      bounded_to_unbounded=False, affine_transform=False, xp=xp, dtype=dtype)
        x = to_ns(np.array(vals).reshape(-1, 1), ns, dt)
        outs = {"forward": tr.forward(x), "inverse": tr.inverse(x), "fit": (tr.fit(x), None)}
    except Exception as e:
        from env import exc_site

        r.case(explorer.digest(case))
        r.violation(f"C04/wrap/raises/{type(e).__name__}/{exc_site(e)}/{ns}", repr(e)[:200], case)
        return r.dump()
    xs = tonp(x).astype(np.float64).reshape(-1)
    if via != "periodic" and getattr(tr, "_periodic_transform", None) is None:
        r.case(explorer.digest(case))
        r.violation(f"C04/wrap/periodic-parameter-not-wrapped/{via}", {"periodic_parameters": repr(tr.periodic_parameters)}, case)
        return r.dump()
    los = float(tonp(tr.lower if via == "periodic" else tr._periodic_transform.lower).reshape(-1)[0])
    his = float(tonp(tr.upper if via == "periodic" else tr._periodic_transform.upper).reshape(-1)[0])
    Ps = his - los
    eps = EPS[dt]
    for name, (y, lj) in outs.items():
        yn = tonp(y).astype(np.float64).reshape(-1)
        for i, (xv, yv) in enumerate(zip(xs, yn)):
            c = dict(case, x=float(xv), op=name)
            r.case(explorer.digest(c), nontrivial=not (los <= xv < his))
            if not (los <= yv < his):
                which = "returns-upper-bound" if yv == his else "outside"
                tiny = "x-just-below-lower" if (xv < los and los - xv <= 1e-6 * max(1.0, abs(los))) else "other-x"
                r.violation(f"C04/wrap/not-in-[lower,upper)/{which}/{tiny}", {"x": xv, "y": yv, "lower": los, "upper": his}, c)
                continue
            k = round((xv - yv) / Ps)
            resid = abs((xv - yv) - k * Ps)
            if resid > 8 * eps * (abs(xv) + abs(k) * Ps + abs(los) + Ps):
                r.violation("C04/wrap/not-congruent", {"x": xv, "y": yv, "resid": resid}, c)
        if lj is not None:
            ljn = tonp(lj).astype(np.float64).reshape(-1)
            if ljn.shape[0] != len(xs) or np.any(ljn != 0):
                r.violation("C04/wrap/logjac-not-zero", {"lj": ljn.tolist()}, case)
    r.sample(case)
    return r.dump()


def run_flow_precond(arg):
    """FlowPreconditioningTransform (zuko): bijection and log-Jacobian by finite differences."""
    ns, b2u, affine, seed = arg
    from aspire import transforms as T

    r = Report()
    xp = get_xp(ns)
    case = {"kind": "flow-preconditioning", "ns": ns, "b2u": b2u, "affine": affine, "seed": seed}
    r.case(explorer.digest(case), nontrivial=True)
    rng = np.random.default_rng(seed)
    x = np.stack([0.2 + 0.6 * rng.uniform(size=40), -3 + 6 * rng.uniform(size=40)], axis=1)
    try:
        tr = T.FlowPreconditioningTransform(parameters=["a", "b"], prior_bounds={"a": [0.0, 1.0], "b": [-5.0, 5.0]},
                                            bounded_to_unbounded=b2u, bounded_transform="logit", affine_transform=affine,
                                            xp=xp, dtype="float64", flow_kwargs={"seed": seed, "hidden_features": [8], "transforms": 2},
                                            fit_kwargs={"n_epochs": 2, "batch_size": 16})
        z0 = tr.fit(xp.asarray(x))
        z, lj = tr.forward(xp.asarray(x[:5]))
        xb, lji = tr.inverse(z)
    except Exception as e:
        from env import exc_site

        r.violation(f"C04/flow-preconditioning/raises/{type(e).__name__}/{exc_site(e)}/{ns}", repr(e)[:300], case)
        return r.dump()
    zn, ljn, xbn, ljin = (tonp(v).astype(np.float64) for v in (z, lj, xb, lji))
    if not np.allclose(tonp(z0).astype(np.float64)[:5], zn, rtol=1e-6, atol=1e-6):
        r.violation("C04/flow-preconditioning/fit-not-forward", None, case)
    if not np.allclose(xbn, x[:5], rtol=1e-5, atol=1e-6):
        r.violation("C04/flow-preconditioning/round-trip", {"x": x[:5].tolist(), "back": xbn.tolist()}, case)
    if not np.allclose(ljin, -ljn, rtol=1e-5, atol=1e-5):
        r.violation("C04/flow-preconditioning/inverse-logjac-not-negative-forward", {"fwd": ljn.tolist(), "inv": ljin.tolist()}, case)

    def fwd_np(row):
        yy, _ = tr.forward(xp.asarray(row.reshape(1, -1)))
        return tonp(yy).astype(np.float64).reshape(-1)

    for i in range(3):
        ld = fd_logdet(fwd_np, x[i], np.array([1e-5, 1e-4]))
        if abs(ld - ljn[i]) > 1e-3 * (1 + abs(ljn[i])):
            r.violation("C04/flow-preconditioning/logjac-vs-finite-difference", {"fd": ld, "reported": ljn[i]}, case)
            break
    r.sample(case)
    return r.dump()


def specs(tier):
    out = []
    mixed3 = [(0.0, 1.0), (-5.0, 20.0), (1e3, 1e3 + 1)]
    bsets = {1: [[b] for b in BOUNDS], 2: [[BOUNDS[0], BOUNDS[4]], [BOUNDS[1], BOUNDS[2]], [BOUNDS[3], BOUNDS[0]]],
             3: [mixed3, [BOUNDS[4]] * 3]}
    batches = (1, 3, 7)
    for kind in ("identity", "periodic", "logit", "probit", "affine"):
        for d in (1, 2, 3):
            for bs in bsets[d]:
                for batch in batches:
                    if kind == "identity" and (batch != 3 or bs is not bsets[d][0]):
                        continue
                    out.append({"kind": kind, "d": d, "bounds": bs, "batch": batch})
    for d in (1, 2, 3):
        # the last one lists the periodic parameters in another order than the parameters themselves
        persets = [[], [0]] + ([list(range(d))] if d > 1 else []) + ([list(range(d))[::-1]] if d > 1 else [])
        for per, b2u, bt, affine in itertools.product(persets, (True, False), ("logit", "probit"), (True, False)):
            if not b2u and bt == "probit":
                continue
            for bs in bsets[d][:2]:
                for batch in (3, 7):
                    out.append({"kind": "composite", "d": d, "bounds": bs, "batch": batch, "periodic": per, "b2u": b2u,
                                "bt": bt, "affine": affine, "shift": len(per)})
    for d in (1, 2):
        for b2u, bt, affine in itertools.product((True, False), ("logit", "probit"), (True, False)):
            if not b2u and bt == "probit":
                continue
            out.append({"kind": "flowtransform", "d": d, "bounds": bsets[d][0], "batch": 7, "b2u": b2u, "bt": bt, "affine": affine})
    # every transform with fitted state is also exercised after a previous fit on other data
    refits = []
    for sp in out:
        if sp["batch"] >= 3 and (sp["kind"] == "affine" or sp.get("affine")):
            refits.append(dict(sp, refit=True))
    # widths whose product leaves the float range although every width and the log-volume are representable
    extreme = []
    for only, bs in (("float64", [(0.0, 1e200), (-1e200, 0.0)]), ("float64", [(0.0, 1e-170), (1.0, 1.0 + 1e-10), (0.0, 1e-170)]),
                     ("float32", [(0.0, 1e15)] * 3), ("float32", [(0.0, 1e-16)] * 3), ("float32", [(0.0, 1e3)] * 14)):
        for kind in ("logit", "probit"):
            extreme.append({"kind": kind, "d": len(bs), "bounds": bs, "batch": 3, "only_dtype": only})
        extreme.append({"kind": "composite", "d": len(bs), "bounds": bs, "batch": 3, "periodic": [], "b2u": True, "bt": "logit", "affine": False,
                        "shift": 0, "only_dtype": only})
    out = out + extreme
    named = [dict(sp, names="unsorted") for sp in out
             if sp["kind"] in ("composite", "flowtransform") and sp["d"] >= 2 and sp["batch"] == 7 and len({tuple(b) for b in sp["bounds"]}) > 1]
    return out + refits + named


def dispatch(job):
    return globals()[job[0]](job[1])


def run(tier, seed, workers):
    rep = Report()
    jobs = []
    for sp in specs(tier):
        for ns in ("numpy", "torch", "jax"):
            for dt in ("float64", "float32"):
                if tier == "quick" and ns != "numpy" and sp["batch"] == 1:
                    continue
                if sp.get("only_dtype") not in (None, dt):
                    continue
                if tier == "quick" and ns == "jax" and sp["kind"] == "composite" and sp["batch"] == 7:
                    continue
                jobs.append(("run_spec", (sp, ns, dt)))
    for b in BOUNDS + [(0.0, 2 * math.pi), (-math.pi, math.pi)]:
        for ns in ("numpy", "torch", "jax"):
            for dt in ("float64", "float32"):
                for via in ("periodic", "composite", "composite-int"):
                    jobs.append(("run_wrap", (b, ns, dt, via)))
                    if via != "composite-int":
                        jobs.append(("run_wrap", (b, ns, dt, via, "in-range")))
    for ns in ("numpy", "torch"):
        for b2u, affine in ((True, False), (True, True), (False, True)) if tier == "thorough" else ((True, False), (False, True)):
            jobs.append(("run_flow_precond", (ns, b2u, affine, 0)))
    # group into chunks to amortise pool overhead
    flow_jobs = [j for j in jobs if j[0] == "run_flow_precond"]
    rest = [j for j in jobs if j[0] != "run_flow_precond"]
    chunks = [("run_many", rest[i::workers * 3]) for i in range(workers * 3)]
    for d in pmap("checks.c04", "dispatch", flow_jobs + [c for c in chunks if c[1]], workers):
        rep.merge(d)
    return rep


def run_many(jobs):
    rep = Report()
    for j in jobs:
        rep.merge(dispatch(j))
    return rep.dump()


def replay(case):
    r = Report()
    if "spec" in case:
        sp = case["spec"]
        sp["bounds"] = [tuple(b) for b in sp["bounds"]]
        r.merge(run_spec((sp, case["ns"], case["dtype"])))
    elif case.get("kind") == "flow-preconditioning":
        r.merge(run_flow_precond((case["ns"], case["b2u"], case["affine"], case["seed"])))
    else:
        r.merge(run_wrap((tuple(case["bounds"]), case["ns"], case["dtype"], case["via"], case.get("batch", "mixed"))))
    return r
