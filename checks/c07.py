"""C07 Adaptive temperature steps meet the ESS target and are maximal.

Small-scope exhaustive enumeration of (population multiset, current
temperature, target, tolerance, floor) against the real determine_beta, and
the same post-condition on every adaptive step of explored real runs."""
import itertools
import math

import numpy as np

from mc import explorer
from mc.par import pmap
from mc.report import Report
from oracles import ref

LEVEL = "exploration"
RULE = ("all multisets of size N in {2,3,4,6} over the log-weight alphabet {0,-0.5,-3,-30,-1e3,-1e5,+2} x beta_prev in "
        "{0,0.25,0.9,1-1e-7} x target in {0.1,0.5,0.9,0.999,ramp(0.3,0.8) rate 1 and 2} x tolerance in {1e-6,1e-3,0.1} x "
        "floor in {0,0.2}, each passed to the real SMCSampler.determine_beta; plus every adaptive step of continuous 2-D runs, fresh and resumed from every checkpoint (scalar and ramped targets), and of the runs explored "
        "by the schedule harness (<=2 deviations). Oracle uses the lemma that ESS is non-increasing in the step: "
        "ESS(beta_new)/N >= target-1e-9 (unless forced by the floor) and (beta_new==1 or ESS(min(1,beta_new+tol))/N < target+1e-9). "
        "non-trivial = population not constant and the ESS curve crosses the target strictly inside (beta_prev, 1)")
ASSUMPTIONS = [
    "target 'in force' is the ramp evaluated at the temperature the step starts from (documented behaviour)",
    "log-weight alphabet and option alphabets are finite (listed in checks/c07.py); epsilon 1e-9 on efficiencies",
]

ALPHABET = [0.0, -0.5, -3.0, -30.0, -1e3, -1e5, 2.0]
BETA_PREV = [0.0, 0.25, 0.9, 1 - 1e-7]
TARGETS = [0.1, 0.5, 0.9, 0.999, ((0.3, 0.8), 1.0), ((0.3, 0.8), 2.0)]
TOLS = [1e-6, 1e-3, 0.1]
FLOORS = [0.0, 0.2]
EPS = 1e-9


def eff_ref(a, dbeta):
    if dbeta == 0:
        return 1.0
    return float(ref.ess([dbeta * v for v in a])) / len(a)


def target_in_force(target, beta_prev):
    if isinstance(target, tuple) and isinstance(target[0], tuple):
        (e0, e1), rate = target
        return e0 + (e1 - e0) * beta_prev ** rate
    return target


def post_condition(a, beta_prev, beta_new, target_value, tol, floor):
    """Returns list of failed condition names."""
    bad = []
    if not (beta_prev <= beta_new <= 1.0):
        return ["range"]
    e_new = eff_ref(a, beta_new - beta_prev)
    forced = floor > 0 and abs(beta_new - min(1.0, beta_prev + floor)) <= 1e-15
    if e_new < target_value - EPS and not forced:
        bad.append("ess-below-target")
    if beta_new < 1.0:
        e_next = eff_ref(a, min(1.0, beta_new + tol) - beta_prev)
        if e_next >= target_value + EPS:
            bad.append("not-maximal")
    return bad


_sampler = None


def get_sampler():
    global _sampler
    if _sampler is None:
        import array_api_compat.numpy as xp
        from aspire.samplers.smc.minipcn import MiniPCNSMC

        _sampler = MiniPCNSMC(log_likelihood=None, log_prior=None, dims=1, prior_flow=None, xp=xp)
    return _sampler


def run_chunk(pops):
    import array_api_compat.numpy as xp
    from aspire.samples import SMCSamples

    r = Report()
    s = get_sampler()
    for a in pops:
        n = len(a)
        av = np.asarray(a, dtype=np.float64)
        for beta_prev in BETA_PREV:
            samples = SMCSamples(x=np.arange(n, dtype=float)[:, None], log_likelihood=av.copy(),
                                 log_prior=np.zeros(n), log_q=np.zeros(n), beta=beta_prev, xp=xp)
            for target, tol, floor in itertools.product(TARGETS, TOLS, FLOORS):
                case = {"a": list(a), "beta_prev": beta_prev, "target": target, "tol": tol, "floor": floor}
                if isinstance(target, tuple):
                    s.target_efficiency = target[0]
                    s.target_efficiency_rate = target[1]
                else:
                    s.target_efficiency = target
                    s.target_efficiency_rate = 1.0
                s.adaptive = True
                s.adaptive_min_step = False
                tv = target_in_force(target, beta_prev)
                try:
                    beta_new, ms = s.determine_beta(samples, beta_prev, float("nan"), floor, beta_tolerance=tol)
                except Exception as e:
                    r.case(explorer.digest(case))
                    r.violation(f"C07/exception/{type(e).__name__}", repr(e)[:200], case)
                    continue
                beta_new = float(beta_new)
                crossing = len(set(a)) > 1 and eff_ref(a, 1.0 - beta_prev) < tv
                r.case(explorer.digest(case), nontrivial=crossing)
                bad = post_condition(a, beta_prev, beta_new, tv, tol, floor)
                r.outcomes.add(round(beta_new, 9))
                for b in bad:
                    r.violation(f"C07/determine_beta/{b}", dict(case, beta_new=beta_new, target_value=tv), case)
                if ms != floor:
                    r.violation("C07/determine_beta/min_step-changed", {"returned": ms}, case)
    if pops:
        r.sample({"a": list(pops[0]), "beta_prev": BETA_PREV[1], "target": 0.5, "tol": 1e-6, "floor": 0.0})
    return r.dump()


def as_run(cfg):
    """Post-condition on every adaptive step of explored real runs."""
    from env.schedule_harness import run_execution

    r = Report()
    o = cfg["opts"]
    for ex in explorer.explore(lambda ctx: run_execution(ctx, cfg), bound=cfg.get("bound", 2)):
        rec = ex.result
        h = rec["history"]
        if h is None:
            continue
        betas = h["beta"]
        sh = h["sample_history"]
        te = o.get("target_efficiency", 0.5)
        target = (tuple(te), o.get("rate", 1.0)) if isinstance(te, (tuple, list)) else te
        tol = o.get("beta_tolerance") or 1e-6
        floor = o.get("min_step") or 0.0
        for t in range(len(betas)):
            if t >= len(sh):
                break
            prev = 0.0 if t == 0 else betas[t - 1]
            a = [l + p - q for l, p, q in zip(sh[t]["L"], sh[t]["P"], sh[t]["Q"])]
            tv = target_in_force(target, prev)
            case = {"cfg": cfg, "choices": ex.choices, "step": t}
            crossing = len(set(a)) > 1 and eff_ref(a, 1.0 - prev) < tv
            r.case(explorer.digest([cfg, ex.choices, t]), nontrivial=crossing)
            if o.get("max_n_steps") is not None and o.get("min_step") is None:
                floor_t = None  # rescaled floor: only maximality is checked
            else:
                floor_t = floor
            bad = post_condition(a, prev, betas[t], tv, tol, floor_t if floor_t is not None else 1.0)
            if floor_t is None:
                bad = [b for b in bad if b == "not-maximal"]
            for b in bad:
                r.violation(f"C07/as-run/{b}", {"a": a, "beta_prev": prev, "beta_new": betas[t], "target_value": tv, "tol": tol}, case)
            if abs(h["eff_target"][t] - target_in_force(target, betas[t])) > 1e-12:
                r.violation("C07/as-run/eff_target-record", {"got": h["eff_target"][t]}, case)
    r.sample({"cfg": cfg})
    return r.dump()


def as_run_resumed(cfg):
    """The same post-condition on every step of runs resumed from every checkpoint (continuous 2-D problem)."""
    from env import resume_harness as rh

    r = Report()
    R = rh.run(cfg)
    o = cfg["opts"]
    te = o.get("target_efficiency", 0.5)
    target = (tuple(te), o.get("target_efficiency_rate", 1.0)) if isinstance(te, (tuple, list)) else te
    floor = o.get("min_step") or 0.0

    def check(run, stage):
        if run.exception is not None or run.history is None:
            return
        betas = run.history["beta"]
        sh = run.history["sample_history"]
        for t in range(min(len(betas), len(sh))):
            prev = 0.0 if t == 0 else betas[t - 1]
            a = (sh[t]["L"] + sh[t]["P"] - sh[t]["Q"]).tolist()
            tv = target_in_force(target, prev)
            case = {"resumed": True, "cfg": cfg, "stage": stage, "step": t}
            r.case(explorer.digest([cfg, stage, t]), nontrivial=len(set(a)) > 1 and eff_ref(a, 1.0 - prev) < tv)
            for b in post_condition(a, prev, betas[t], tv, 1e-6, floor):
                r.violation(f"C07/as-run/{b}/{'resumed' if stage != 'fresh' else 'fresh'}",
                            {"beta_prev": prev, "beta_new": betas[t], "target_value": tv, "eff": eff_ref(a, betas[t] - prev)}, case)

    check(R, "fresh")
    seen = set()
    for it, payload in R.sink:
        if it in seen:
            continue
        seen.add(it)
        check(rh.run(cfg, resume_from=payload), f"resumed-from-{it}")
        if it < len(R.history["beta"]):
            # the resuming call names another n_samples (nothing is drawn on resume): efficiencies are those of the population
            for other in (cfg["N"] * 2, max(2, cfg["N"] // 2)):
                check(rh.run(dict(cfg, N=other), resume_from=payload), f"resumed-from-{it}-with-n_samples={other}")
    r.sample({"resumed": True, "cfg": cfg})
    return r.dump()


def populations(tier):
    pops = []
    for n in (2, 3, 4, 6):
        if tier == "quick" and n == 6:
            combos = [c for i, c in enumerate(itertools.combinations_with_replacement(ALPHABET, n)) if i % 6 == 0]
        else:
            combos = list(itertools.combinations_with_replacement(ALPHABET, n))
        pops.extend(combos)
    return pops


def run(tier, seed, workers):
    rep = Report()
    pops = populations(tier)
    chunks = [pops[i::workers * 4] for i in range(workers * 4)]
    for d in pmap("checks.c07", "run_chunk", [c for c in chunks if c], workers):
        rep.merge(d)
    rep.count("populations", len(pops))
    cfgs = []
    for te in (0.5, 0.9, (0.3, 0.8)):
        for ms in (None, 0.3):
            for N in (4, 2):
                opts = {"adaptive": True, "target_efficiency": te}
                if ms:
                    opts["min_step"] = ms
                cfgs.append({"N": N, "opts": opts, "sampler": "smc", "menu": ["flat", "mild", "peaked"], "bound": 2})
    # an explicit floor together with a step cap: the floor stays the one the user gave
    for ms, cap in ((0.2, 8), (0.3, 3), (0.1, 20)):
        cfgs.append({"N": 4, "opts": {"adaptive": True, "target_efficiency": 0.9, "min_step": ms, "max_n_steps": cap}, "sampler": "smc",
                     "menu": ["flat", "mild", "peaked"], "bound": 2})
    cfgs.append({"N": 4, "opts": {"adaptive": True, "target_efficiency": (0.3, 0.8), "rate": 2.0}, "sampler": "smc",
                 "menu": ["flat", "mild", "peaked"], "bound": 2})
    cfgs.append({"N": 4, "opts": {"adaptive": True, "beta_tolerance": 1e-2, "target_efficiency": 0.9}, "sampler": "smc",
                 "menu": ["flat", "mild"], "bound": 2})
    cfgs.append({"N": 4, "opts": {"adaptive": True, "target_efficiency": 0.9}, "sampler": "emcee_smc",
                 "menu": ["flat", "mild", "peaked"], "bound": 2})
    # the ramp exponent on the other front-end too (rates above and below 1)
    for rate in (2.0, 0.5):
        cfgs.append({"N": 4, "opts": {"adaptive": True, "target_efficiency": (0.3, 0.8), "rate": rate}, "sampler": "emcee_smc",
                     "menu": ["flat", "mild", "peaked"], "bound": 2})
    cfgs.append({"N": 4, "opts": {"adaptive": True, "target_efficiency": (0.3, 0.8), "rate": 0.5}, "sampler": "smc",
                 "menu": ["flat", "mild", "peaked"], "bound": 2})
    for d in pmap("checks.c07", "as_run", cfgs, workers):
        rep.merge(d)
    rep.count("as_run_configs", len(cfgs))
    rcfgs = []
    for sampler in ("smc", "emcee_smc"):
        for opts in ({"adaptive": True, "target_efficiency": 0.8}, {"adaptive": True, "target_efficiency": (0.3, 0.9)},
                     {"adaptive": True, "target_efficiency": (0.5, 0.9), "target_efficiency_rate": 2.0},
                     {"adaptive": True, "target_efficiency": 0.9, "min_step": 0.15},
                     {"adaptive": True, "target_efficiency": 0.9, "min_step": 0.1, "max_n_steps": 30}):
            if sampler == "emcee_smc" and "min_step" in opts:
                continue
            for sd in sorted({0, seed}):
                rcfgs.append({"sampler": sampler, "N": 8, "opts": opts, "cadence": 1, "n_final": None, "precond": "none", "seed": sd})
    for d in pmap("checks.c07", "as_run_resumed", rcfgs, workers):
        rep.merge(d)
    rep.count("resumed_as_run_configs", len(rcfgs))
    return rep


def replay(case):
    r = Report()
    if case.get("resumed"):
        cfg = case["cfg"]
        te = cfg["opts"].get("target_efficiency")
        if isinstance(te, list):
            cfg["opts"]["target_efficiency"] = tuple(te)
        r.merge(as_run_resumed(cfg))
        return r
    if "cfg" in case:
        from checks.c06 import _fix

        cfg = _fix(case["cfg"])
        cfg["bound"] = 0
        from env.schedule_harness import run_execution

        # replay exactly the recorded execution
        d = Report()
        ex = explorer.run_one(lambda ctx: run_execution(ctx, cfg), case["choices"])
        # reuse as_run logic on the single execution by a 0-bound exploration from that prefix
        r.merge(as_run(dict(cfg, bound=0)))
        return r
    import array_api_compat.numpy as xp
    from aspire.samples import SMCSamples

    s = get_sampler()
    a = case["a"]
    target = case["target"]
    if isinstance(target, list):
        target = (tuple(target[0]), target[1])
    if isinstance(target, tuple):
        s.target_efficiency, s.target_efficiency_rate = target[0], target[1]
    else:
        s.target_efficiency, s.target_efficiency_rate = target, 1.0
    s.adaptive, s.adaptive_min_step = True, False
    n = len(a)
    samples = SMCSamples(x=np.arange(n, dtype=float)[:, None], log_likelihood=np.asarray(a, dtype=float),
                         log_prior=np.zeros(n), log_q=np.zeros(n), beta=case["beta_prev"], xp=xp)
    beta_new, _ = s.determine_beta(samples, case["beta_prev"], float("nan"), case["floor"], beta_tolerance=case["tol"])
    tv = target_in_force(target, case["beta_prev"])
    r.case("replay")
    for b in post_condition(a, case["beta_prev"], float(beta_new), tv, case["tol"], case["floor"]):
        r.violation(f"C07/determine_beta/{b}", {"beta_new": float(beta_new), "target_value": tv}, case)
    return r
