"""C19 Temporary overrides are fully restored on every exit path.

Explicit-state BFS over nestings of Aspire.auto_checkpoint / Aspire.enable_pool
on one real instance (driven through contextlib.ExitStack, which is exactly a
nest of with-statements), with normal exits, a sampling call inside the body
and an exception (Exception subclass / KeyboardInterrupt) injected at every
position."""
import contextlib
import functools
import os
import shutil
import tempfile

import numpy as np

from env import get_xp
from env.flows import AnalyticFlow
from mc import bfs as B
from mc import explorer
from mc.par import pmap
from mc.report import Report

LEVEL = "model_checking"
RULE = ("BFS over action sequences {construct a context manager now and enter it later (once per history), enter one of 4 contexts (auto_checkpoint(p1,every=1), auto_checkpoint(p2,every=2,"
        "save_config=False), enable_pool(close_pool=True), enable_pool(close_pool=False, parallelize_prior=True), enable_pool(one pool object shared by all such contexts, close_pool=False)), a refused entry (parallelize_prior=True with a prior that takes no map function), a pool context whose pool fails in close() / join() on the way out, leave the "
        "innermost context normally, sample inside the body (real importance run), raise Exception-subclass, raise "
        "KeyboardInterrupt} with nesting depth <=3 (quick) / 4 (thorough) and <=5/7 actions; abstract state = (context stack, "
        "likelihood/prior wrapping depth, checkpoint-defaults content or ABSENT, per-pool close/join counters, sampled flag, "
        "unwound flag); every transition is executed on a real Aspire instance")
ASSUMPTIONS = [
    "contextlib.ExitStack reproduces the semantics of nested with-statements (CPython documentation)",
    "pools are modelled by FakePool (map/close/join counters); a fresh pool object per entered context",
    "faults are raised between operations of the body (not inside __enter__/__exit__ themselves)",
]

CONTEXTS = ["A1", "A2", "A3", "P1", "P2", "P3"]
ABSENT = "<absent>"


class FakePool:
    def __init__(self, name):
        self.name = name
        self.closed = 0
        self.joined = 0
        self.order = []

    def map(self, fn, it):
        return list(map(fn, it))

    def close(self):
        self.closed += 1
        self.order.append("close")

    def terminate(self):  # stopping the workers is closing the pool as far as the property is concerned
        self.closed += 1
        self.order.append("terminate")

    def join(self):
        self.joined += 1
        self.order.append("join")


class InjectedError(RuntimeError):
    pass


class World:
    """A real Aspire instance plus the harness-side bookkeeping."""

    def __init__(self, tmpdir):
        from aspire import Aspire

        def loglike(samples, map_fn=map):
            return -0.5 * (np.asarray(samples.x) ** 2).sum(1)

        def logprior(samples, map_fn=map):
            return np.zeros(len(samples.x))

        self.loglike, self.logprior = loglike, logprior
        self.tmpdir = tmpdir
        self.flow = AnalyticFlow(2, seed=0)
        self.a = Aspire(log_likelihood=loglike, log_prior=logprior, dims=2, parameters=["a", "b"], flow=self.flow,
                        xp=get_xp("numpy"))
        self.stack = contextlib.ExitStack()
        self.entered = []  # dicts: ctx, snapshot at entry, pool
        self.pools = []
        self.problems = []  # (signature, detail)
        self.unwound = False
        self.sampled = 0
        self.prepared = None
        self.prepared_once = False
        self.pre = self.snapshot()

    def snapshot(self):
        d = getattr(self.a, "_checkpoint_defaults", ABSENT)
        return {"like": self.a.log_likelihood, "prior": self.a.log_prior, "defaults_obj": d,
                "defaults_val": dict(d) if isinstance(d, dict) else d}

    def same(self, snap, where, content=True):
        now = self.snapshot()
        if now["like"] is not snap["like"]:
            self.problems.append((f"likelihood-not-restored/{where}", repr(now["like"])[:80]))
        if now["prior"] is not snap["prior"]:
            self.problems.append((f"prior-not-restored/{where}", repr(now["prior"])[:80]))
        if snap["defaults_obj"] is ABSENT:
            if now["defaults_obj"] is not ABSENT:
                self.problems.append((f"checkpoint-defaults-left-behind/{where}", now["defaults_val"]))
        else:
            if now["defaults_obj"] is ABSENT:
                self.problems.append((f"checkpoint-defaults-lost/{where}", None))
            elif now["defaults_obj"] is not snap["defaults_obj"]:
                self.problems.append((f"checkpoint-defaults-replaced/{where}", now["defaults_val"]))
            elif content and now["defaults_val"] != snap["defaults_val"]:
                self.problems.append((f"checkpoint-defaults-changed/{where}", {"now": now["defaults_val"], "entry": snap["defaults_val"]}))

    def path(self, name):
        return os.path.join(self.tmpdir, f"{name}.h5")

    def make(self, c):
        pool = None
        if c == "A1":
            cm = self.a.auto_checkpoint(self.path("p1"), every=1)
        elif c == "A2":
            cm = self.a.auto_checkpoint(self.path("p2"), every=2, save_config=False)
        elif c == "A3":  # the same file as A1 with other options
            cm = self.a.auto_checkpoint(self.path("p1"), every=3, save_config=False)
        elif c == "P3":  # one pool object shared by every P3 context, always with the same options
            if getattr(self, "shared", None) is None:
                self.shared = FakePool("shared")
                self.pools.append((self.shared, c))
            return self.a.enable_pool(self.shared, close_pool=False), self.shared
        elif c == "P1":
            pool = FakePool(f"pool{len(self.pools)}")
            cm = self.a.enable_pool(pool, close_pool=True)
        else:
            pool = FakePool(f"pool{len(self.pools)}")
            cm = self.a.enable_pool(pool, close_pool=False, parallelize_prior=True)
        if pool is not None:
            self.pools.append((pool, c))
        return cm, pool

    def enter(self, c):
        cm, pool = self.make(c)
        self._enter(c, cm, pool)

    def prepare(self, c):
        """Construct the context manager now, enter it later (h = aspire.enable_pool(...); ...; with h:)."""
        cm, pool = self.make(c)
        self.prepared = (c, cm, pool)
        self.prepared_once = True

    def enter_prepared(self):
        c, cm, pool = self.prepared
        self.prepared = None
        self._enter(c, cm, pool)

    def _enter(self, c, cm, pool):
        snap = self.snapshot()
        self.stack.enter_context(cm)
        self.entered.append({"ctx": c, "snap": snap, "pool": pool})
        self.inside_checks()

    def inside_checks(self):
        """Non-vacuity: while inside, the overrides are really active."""
        a_ctx = [e for e in self.entered if e["ctx"] in ("A1", "A2", "A3")]
        d = getattr(self.a, "_checkpoint_defaults", ABSENT)
        if a_ctx:
            top = a_ctx[-1]
            want_every = {"A1": 1, "A2": 2, "A3": 3}[top["ctx"]]
            if d is ABSENT or d.get("every") != want_every or d.get("save_config") != (top["ctx"] == "A1"):
                self.problems.append(("override-not-active/auto_checkpoint", d if d is ABSENT else dict(d)))
        p_ctx = [e for e in self.entered if e["ctx"] in ("P1", "P2", "P3")]
        if p_ctx:
            top = p_ctx[-1]
            lk = self.a.log_likelihood
            if not isinstance(lk, functools.partial) or lk.keywords.get("map_fn") != top["pool"].map:
                self.problems.append(("override-not-active/pool-likelihood", repr(lk)[:80]))
            if any(e["ctx"] == "P2" for e in p_ctx):
                if not isinstance(self.a.log_prior, functools.partial):
                    self.problems.append(("override-not-active/pool-prior", repr(self.a.log_prior)[:80]))

    def _after_exit(self, e, where):
        # a pool context does not own the checkpoint defaults: the body may legitimately have updated the
        # active defaults' saved_* flags by sampling, so only the identity of the dict is required there
        self.same(e["snap"], where, content=e["ctx"] in ("A1", "A2", "A3"))
        pool = e["pool"]
        if pool is not None:
            if e["ctx"] == "P1" and (pool.closed, pool.joined) != (1, 1):
                self.problems.append((f"pool-not-closed-once/{where}", (pool.closed, pool.joined)))
            if e["ctx"] == "P1" and pool.order[:2] != ["close", "join"]:
                self.problems.append((f"pool-close-join-order/{where}", pool.order))
            if e["ctx"] in ("P2", "P3") and (pool.closed or pool.joined):
                self.problems.append((f"pool-closed-although-not-asked/{where}", (pool.closed, pool.joined)))

    def exit_one(self):
        e = self.entered.pop()
        # leave exactly the innermost context: pop its callback from the ExitStack
        inner = contextlib.ExitStack()
        cb = self.stack._exit_callbacks.pop()
        inner._exit_callbacks.append(cb)
        inner.close()
        self._after_exit(e, f"normal-exit-of-{e['ctx']}")
        if self.entered:
            self.inside_checks()

    def raise_(self, kind):
        exc = InjectedError("injected") if kind == "Exception" else KeyboardInterrupt()
        entered = list(self.entered)
        try:
            with self.stack:
                raise exc
        except (InjectedError, KeyboardInterrupt) as got:
            if got is not exc:
                self.problems.append((f"different-exception-propagated/{kind}", repr(got)))
        else:
            self.problems.append((f"exception-swallowed/{kind}", None))
        self.entered = []
        for e in reversed(entered):
            # after a full unwind every level must be back at its own entry state only for the outermost;
            # inner levels' entry states were inside outer overrides, so check pools per level and state at the end
            pool = e["pool"]
            if pool is not None:
                if e["ctx"] == "P1" and (pool.closed, pool.joined) != (1, 1):
                    self.problems.append((f"pool-not-closed-once/unwind-by-{kind}", (pool.closed, pool.joined)))
                if e["ctx"] in ("P2", "P3") and (pool.closed or pool.joined):
                    self.problems.append((f"pool-closed-although-not-asked/unwind-by-{kind}", (pool.closed, pool.joined)))
        self.same(self.pre, f"unwind-by-{kind}")
        self.unwound = True

    def failed_entry(self):
        """enable_pool(parallelize_prior=True) with a prior that takes no map function: the attempt is refused (at
        construction or at entry) and leaves the instance exactly as it was."""
        saved_prior = self.a.log_prior

        def plain_prior(samples):
            return np.zeros(len(samples.x))

        self.a.log_prior = plain_prior
        snap = self.snapshot()
        pool = FakePool("refused")
        refused = False
        try:
            cm = self.a.enable_pool(pool, close_pool=False, parallelize_prior=True)
            cm.__enter__()
        except ValueError:
            refused = True
        if not refused:
            self.problems.append(("pool-context-accepted-a-prior-without-map_fn", None))
        else:
            self.same(snap, "refused-entry-of-a-pool-context")
            if pool.closed or pool.joined:
                self.problems.append(("pool-closed-although-not-asked/refused-entry", (pool.closed, pool.joined)))
        self.a.log_prior = saved_prior
        self.tried_refused = True

    tried_refused = False

    def failing_close(self, where):
        """A pool context (close_pool=True) whose pool fails while it is being shut down (close() or join() raises - a dead
        worker, Ctrl-C while join blocks, an executor without close()): the failure propagates, and the instance is exactly
        as it was before the context was entered."""

        class FailingPool(FakePool):
            def close(self):
                FakePool.close(self)
                if where == "close":
                    raise RuntimeError("pool.close failed")

            def join(self):
                FakePool.join(self)
                if where == "join":
                    raise KeyboardInterrupt()

        snap = self.snapshot()
        pool = FailingPool("failing")
        try:
            with self.a.enable_pool(pool, close_pool=True):
                pass
        except (RuntimeError, KeyboardInterrupt):
            pass
        else:
            self.problems.append((f"failure-of-pool-{where}-swallowed", None))
        self.same(snap, f"exit-with-failing-pool-{where}")

    def sample(self):
        try:
            self.a.sample_posterior(n_samples=4, sampler="importance")
            self.sampled += 1
        except Exception as e:
            from env import exc_site

            self.problems.append((f"sample-raises/{type(e).__name__}/{exc_site(e)}", str(e)[:160]))

    def finish_checks(self):
        if not self.entered and not self.unwound:
            self.same(self.pre, "all-contexts-left")

    def _pool_sig(self):
        live = [id(e["pool"]) for e in self.entered if e["pool"] is not None]
        prep = id(self.prepared[2]) if self.prepared and self.prepared[2] is not None else None
        in_stack = tuple((c, p.closed, p.joined) for e in self.entered for p, c in self.pools if e["pool"] is p)
        prepared = tuple((c, p.closed, p.joined) for p, c in self.pools if id(p) == prep)
        done = tuple(sorted((c, p.closed, p.joined) for p, c in self.pools if id(p) not in live and id(p) != prep))
        return (in_stack, prepared, done)

    def key(self):
        d = getattr(self.a, "_checkpoint_defaults", ABSENT)
        dv = ABSENT if d is ABSENT else (os.path.basename(d["path"]).split(".")[0], d["every"], d["save_config"],
                                         d.get("saved_config"), d.get("saved_flow"))

        def depth(f):
            n = 0
            while isinstance(f, functools.partial):
                n += 1
                f = f.func
            return n

        def dsig(o):
            return ABSENT if o is ABSENT else (os.path.basename(o["path"]).split(".")[0], o["every"], o["save_config"],
                                               o.get("saved_config"), o.get("saved_flow"))

        saved = tuple(dsig(e["snap"]["defaults_obj"]) for e in self.entered)
        return (tuple(e["ctx"] for e in self.entered), self.prepared[0] if self.prepared else None, saved, depth(self.a.log_likelihood), depth(self.a.log_prior), dv,
                self._pool_sig(), self.sampled > 0, self.unwound, self.prepared_once,
                tuple(sorted(set(s for s, _ in self.problems))))


def build_world(hist, tmpdir):
    w = World(tmpdir)
    for a in hist:
        if a[0] == "enter":
            w.enter(a[1])
        elif a[0] == "prepare":
            w.prepare(a[1])
        elif a[0] == "enter-prepared":
            w.enter_prepared()
        elif a[0] == "exit":
            w.exit_one()
        elif a[0] == "raise":
            w.raise_(a[1])
        elif a[0] == "sample":
            w.sample()
        elif a[0] == "failed-entry":
            w.failed_entry()
        elif a[0] == "failing-close":
            w.failing_close(a[1])
    w.finish_checks()
    return w


def run_bfs(arg):
    max_nest, max_actions = arg
    r = Report()
    tmpdir = tempfile.mkdtemp(prefix="c19_")
    try:
        def build(hist):
            for f in os.listdir(tmpdir):
                os.remove(os.path.join(tmpdir, f))
            return build_world(hist, tmpdir)

        def actions(w):
            if w.unwound:
                return []
            acts = []
            if len(w.entered) < max_nest:
                acts += [("enter", c) for c in CONTEXTS]
                if w.prepared is not None:
                    acts.append(("enter-prepared",))
            if w.prepared is None and not w.prepared_once:
                acts += [("prepare", c) for c in ("P1", "A1")]
            if len(w.entered) <= 1 and not any(e["ctx"] == "P2" for e in w.entered):
                acts.append(("failed-entry",))  # leaves the state as it is (a self-loop of the search) unless something is not put back
                acts.append(("failing-close", "close"))  # self-loops as well
                acts.append(("failing-close", "join"))
            if w.entered:
                acts.append(("exit",))
                acts.append(("raise", "Exception"))
                acts.append(("raise", "KeyboardInterrupt"))
                if w.sampled == 0 and any(e["ctx"] in ("A1", "A2", "A3") for e in w.entered):
                    acts.append(("sample",))
            return acts

        def canon(w):
            return w.key()

        def on_state(w, hist, key):
            case = {"history": [list(a) for a in hist]}
            r.case(explorer.digest(case), nontrivial=len(hist) >= 2)
            for sig, detail in w.problems:
                r.violation("C19/" + sig, detail, case)
            r.outcomes.add(explorer.digest(key))
            if len(r.samples) < 3 and len(hist) >= 4:
                r.sample(case)

        def on_transition(k, a, nk):
            r.states.add(explorer.digest(k))
            r.states.add(explorer.digest(nk))
            r.transitions.add((explorer.digest(k), explorer.digest(a), explorer.digest(nk)))

        res = B.bfs([()], build, actions, canon, on_state, max_actions, bisim=True, on_transition=on_transition)
        if res["bisim_mismatches"]:
            if not r.violations:
                raise B.BisimulationError(res["bisim_mismatches"][0])
            r.count("bisimulation_mismatches_explained_by_violations", len(res["bisim_mismatches"]))
        r.count("histories", res["histories"])
        r.count("bisim_checked_states", res["bisim_checked"])
        r.count("max_depth", res["depth"])
        r.notes.append(f"nesting<={max_nest}, actions<={max_actions}: states={res['states']} transitions={res['transitions']} fixpoint={res['fixpoint']}")
    finally:
        shutil.rmtree(tmpdir, ignore_errors=True)
    return r.dump()


def run(tier, seed, workers):
    rep = Report()
    jobs = [(3, 5)] if tier == "quick" else [(4, 7)]
    for d in pmap("checks.c19", "run_bfs", jobs, 1):
        rep.merge(d)
    return rep


def extra_coverage(rep):
    return {"traces_validated_against_impl": rep.counters.get("histories", 0),
            "explanation": "every BFS transition enters/leaves the real context managers of a real Aspire instance"}


def replay(case):
    r = Report()
    tmpdir = tempfile.mkdtemp(prefix="c19r_")
    try:
        w = build_world([tuple(a) for a in case["history"]], tmpdir)
        r.case("replay")
        for sig, detail in w.problems:
            r.violation("C19/" + sig, detail, case)
    finally:
        shutil.rmtree(tmpdir, ignore_errors=True)
    return r
