"""C10 Cached per-particle log-densities always belong to the particle's coordinates.

(a) Exhaustive exploration of draw_initial_samples with a finite-support
proposal containing out-of-prior points (every draw outcome up to a horizon);
(b) recomputation of log L / log pi / log q at the coordinates of every row of
every population the library hands back, records in the history or writes to a
checkpoint, for all six samplers over a configuration grid incl. resumed runs;
(c) the same recomputation on every execution of lattice explorations."""
import itertools
import math

import numpy as np

from env import any_run, get_xp, tonp
from env import resume_harness as rh
from env.flows import LatticeFlow
from env.targets import Monitor, box_logprior, gauss_loglike
from mc import explorer
from mc.par import pmap
from mc.report import Report

LEVEL = "exploration"
RULE = ("(a) draw_initial_samples: proposal with K=4 support points of which 2 lie outside the prior, requested n in {1,2,3}, "
        "every sequence of draws (complete tree; after 3 rejection rounds the menu offers only in-prior points - stated horizon) "
        "x sampler class x namespace; (b) sampler {importance, emcee, minipcn, smc, emcee_smc, blackjax_smc} x preconditioning x "
        "namespace x dtype x n_final x seeds x {no pool, inside enable_pool with a pool that also offers an unordered map, likelihood only / likelihood and prior}: every population (final, history, checkpoint payloads, resumed) recomputed; "
        "(c) every execution of small lattice SMC trees. non-trivial = population in which some particle was rejected, resampled, "
        "moved or restored; distinct = distinct (config, choice sequence / population)")
ASSUMPTIONS = [
    "deterministic user functions; stub kernels; horizon of 3 rejection rounds in the initial-draw exploration",
]


def run_initial(arg):
    cls, ns, n = arg
    from aspire import Aspire

    r = Report()
    xp = get_xp(ns)
    xs = np.array([[0.5], [7.0], [1.5], [-3.0]])  # points 1 and 3 are outside the prior [0, 2]
    Q = [0.3, 0.3, 0.2, 0.2]
    logq = [math.log(q) + 0.1 * j for j, q in enumerate(Q)]  # distinct values identify the row
    like = gauss_loglike([1.0], [0.5])
    prior = box_logprior([0.0], [2.0])

    def body(ctx):
        flow = LatticeFlow(1, xs=xs, Q=Q, logq=logq, ctx=ctx, xp_name=ns)
        flow.menu = lambda rnd: [0, 1, 2, 3] if rnd < 3 else [0, 2]
        mon = Monitor(like, prior, ns)
        a = Aspire(log_likelihood=mon.log_likelihood, log_prior=mon.log_prior, dims=1, parameters=["p0"],
                   prior_bounds={"p0": [0.0, 2.0]}, flow=flow, xp=xp)
        smp = a.init_sampler(cls, preconditioning="none")
        s = smp.draw_initial_samples(n)
        return s, flow, mon, smp

    n_exec = 0
    try:
        for ex in explorer.explore(body, weighted=True):
            n_exec += 1
            s, flow, mon, smp = ex.result
            case = {"part": "initial", "sampler": cls, "ns": ns, "n": n, "choices": ex.choices}
            rounds = len(flow.draw_log)
            r.case(explorer.digest(case), nontrivial=rounds > 1 or any(i in (1, 3) for d in flow.draw_log for i in d))
            x = tonp(s.x).astype(np.float64).reshape(-1)
            if len(x) != n:
                r.violation("C10/initial/size", {"got": len(x), "want": n}, case)
                continue
            P = tonp(s.log_prior).astype(np.float64)
            if not np.all(np.isfinite(P)):
                r.violation("C10/initial/non-finite-prior-kept", {"x": x.tolist()}, case)
            j, ok = flow.lookup(x.reshape(-1, 1))
            Qs = tonp(s.log_q).astype(np.float64)
            if not np.allclose(Qs, np.asarray(logq)[j], rtol=0, atol=1e-6):
                r.violation("C10/initial/log_q-not-of-this-row", {"x": x.tolist(), "log_q": Qs.tolist(), "want": np.asarray(logq)[j].tolist()}, case)
            if not np.allclose(tonp(s.log_likelihood).astype(np.float64), like(x.reshape(-1, 1)), rtol=0, atol=1e-5):
                r.violation("C10/initial/log_likelihood-not-of-this-row", {"x": x.tolist()}, case)
            if not np.allclose(P, prior(x.reshape(-1, 1)), rtol=0, atol=1e-6):
                r.violation("C10/initial/log_prior-not-of-this-row", {"x": x.tolist()}, case)
            # which of the valid draws are kept, and whether rejected draws cost likelihood evaluations, is not part
            # of the property: recorded as observations only
            flat = [i for d in flow.draw_log for i in d if i in (0, 2)]
            if [int(v) for v in j] != flat[:n]:
                r.count("observation:kept-draws-are-not-the-first-n-valid-ones")
            if smp.n_likelihood_evaluations != n:
                r.count("observation:likelihood-evaluated-on-more-than-n-points")
            # every kept row must be one of the points actually drawn
            drawn = set(i for d in flow.draw_log for i in d)
            if not set(int(v) for v in j) <= drawn or not np.all(ok):
                r.violation("C10/initial/row-not-among-the-draws", {"kept": [int(v) for v in j], "draws": flow.draw_log}, case)
            r.outcomes.add(explorer.digest([cls, x.tolist()]))
    except explorer.HarnessError:
        raise
    except Exception as e:
        from env import exc_site

        r.case(explorer.digest([cls, ns, n]))
        r.violation(f"C10/initial/raises/{type(e).__name__}/{exc_site(e)}/{cls}/{ns}", repr(e)[:200], {"part": "initial", "sampler": cls, "ns": ns, "n": n})
    r.sample({"part": "initial", "sampler": cls, "ns": ns, "n": n, "executions": n_exec})
    return r.dump()


def run_populations(cfg):
    r = Report()
    case = {"part": "populations", "cfg": cfg}
    dt = cfg.get("dtype") or ("float32" if cfg.get("ns") == "torch" else "float64")
    if cfg["sampler"] == "blackjax_smc":
        from env.jax_env import run_blackjax

        R = run_blackjax(cfg)
        r.case(explorer.digest(case), nontrivial=True)
        if R.exception is not None:
            r.violation(f"C10/blackjax_smc/run-raises/{R.exception[0]}/{R.exception[1]}", R.exception, case)
            return r.dump()
        problem = {"like": R.mon.like_np, "prior": R.mon.prior_np}
        pops = [("final", R.result["final"])] + [(f"history[{i}]", s) for i, s in enumerate(R.history["sample_history"])] + \
               [(f"checkpoint@it{it}", s) for it, s in R.sink_pops]
        for name, pop in pops:
            r.case(explorer.digest([case, name]), nontrivial=name != "history[0]")
            bad = any_run.coherence(pop, problem, R.flow, "float64")
            if bad:
                r.violation(f"C10/blackjax_smc/{bad[0][0]}-not-of-this-row/{name.split('[')[0].split('@')[0]}", {"population": name, "first": bad[0], "n": len(bad)}, case)
        r.sample(case)
        return r.dump()
    R = any_run.run_any(cfg)
    r.case(explorer.digest(case), nontrivial=True)
    if R.exception is not None:
        r.violation(f"C10/{cfg['sampler']}/run-raises/{R.exception[0]}/{R.exception[1] if len(R.exception) > 2 else ''}", R.exception, case)
        return r.dump()

    def check(run, stage):
        for name, pop in any_run.populations(run):
            r.case(explorer.digest([case, stage, name]), nontrivial=name != "history[0]")
            # tolerance of the width the population is actually stored in (whether that is the requested width is C15's business)
            bad = any_run.coherence(pop, run.problem, run.aspire.flow, pop.get("dtype") or dt)
            if bad:
                r.violation(f"C10/{cfg['sampler']}/{bad[0][0]}-not-of-this-row/{name.split('[')[0]}/{stage}",
                            {"population": name, "first": bad[0], "n": len(bad)}, dict(case, stage=stage))
            if name == "history[0]":
                if len(pop["x"]) != cfg["N"]:
                    r.violation(f"C10/{cfg['sampler']}/initial-size/{stage}", {"got": len(pop["x"]), "want": cfg["N"]}, case)
                if not np.all(np.isfinite(pop["P"])):
                    r.violation(f"C10/{cfg['sampler']}/initial-non-finite-prior/{stage}", None, case)
            r.outcomes.add(explorer.digest([name, np.round(np.asarray(pop["x"], dtype=np.float64), 6).tolist()]))
        if run.result is not None and cfg.get("n_final") and cfg["sampler"] in ("smc", "emcee_smc"):
            if len(run.result["final"]["x"]) != cfg["n_final"]:
                r.violation(f"C10/{cfg['sampler']}/final-size/{stage}", {"got": len(run.result["final"]["x"]), "want": cfg["n_final"]}, case)

    check(R, "fresh")
    if cfg.get("pool"):
        if R.mon.map_fn_calls == 0:
            raise explorer.HarnessError("pool run never handed a map function to the user's callables")
        r.count("pool_runs")
    if cfg["sampler"] in ("smc", "emcee_smc") and R.sink:
        done = set()
        for it, payload in R.sink:
            if it in done:
                continue
            done.add(it)
            rr = any_run.run_any(cfg, resume_from=payload)
            if rr.exception is not None:
                r.violation(f"C10/{cfg['sampler']}/resume-raises/{rr.exception[0]}", rr.exception, dict(case, resumed_from=it))
                continue
            check(rr, "resumed")
    r.sample(case)
    return r.dump()


def run_lattice(cfg):
    """Every execution of a small lattice SMC tree: recompute the populations' cached values."""
    from checks import c01
    from env.choice_rng import ChoiceRNG
    from env.lattice import make_flow, model_1d, proposal_masses

    import _kernel
    import orng
    from aspire import Aspire

    target, precond, sampler, T, nfinal = cfg
    r = Report()
    m = model_1d(target, precond, 3)
    Q = proposal_masses(3, "skew")

    def body(ctx):
        _kernel.reset(mode="lattice", h=m["h"], ctx=ctx)
        rng = ChoiceRNG(ctx)
        orng.CONFIG["factory"] = lambda: rng
        mon = Monitor(m["like"], m["prior"], "numpy")
        flow = make_flow(m, Q, ctx, "numpy")
        flow.tol = 1e-5
        a = Aspire(log_likelihood=mon.log_likelihood, log_prior=mon.log_prior, dims=1, parameters=m["parameters"],
                   prior_bounds=m["bounds"], periodic_parameters=m["periodic"], flow=flow, xp=get_xp("numpy"))
        smp = a.init_sampler(sampler, preconditioning=m["preconditioning"],
                             preconditioning_kwargs=dict(m["precond_kwargs"]) if m["precond_kwargs"] else None)
        smp.rng = rng
        kw = {"sampler_kwargs": {"n_steps": 1}} if sampler == "smc" else {"sampler_kwargs": {"nsteps": 1, "progress": False}}
        try:
            res = smp.sample(2, n_steps=T, adaptive=False, n_final_samples=nfinal, **kw)
        except explorer.HarnessError:
            raise
        except Exception as e:  # the library failing on a lattice run is a verdict, not a harness error
            from env import exc_site

            return ("raised", type(e).__name__, exc_site(e), repr(e)[:200]), smp, flow
        return res, smp, flow

    problem = {"like": m["like"], "prior": m["prior"]}
    for ex in explorer.explore(body, weighted=True):
        res, smp, flow = ex.result
        case = {"part": "lattice", "cfg": list(cfg), "choices": ex.choices}
        if isinstance(res, tuple) and res and res[0] == "raised":
            r.case(explorer.digest(case), nontrivial=True)
            r.violation(f"C10/{sampler}/lattice-run-raises/{res[1]}/{res[2]}", res[3], case)
            continue
        pops = [("final", rh.snapshot_samples(res))] + [(f"history[{i}]", rh.snapshot_samples(s)) for i, s in enumerate(smp.history.sample_history)]
        moved = any(c != 0 for c in ex.choices)
        r.case(explorer.digest(case), nontrivial=moved)
        for name, pop in pops:
            bad = any_run.coherence(pop, problem, flow, "float64")
            if bad:
                r.violation(f"C10/{sampler}/{bad[0][0]}-not-of-this-row/{name.split('[')[0]}/lattice", {"population": name, "first": bad[0]}, case)
                break
    r.sample({"part": "lattice", "cfg": list(cfg)})
    return r.dump()


def dispatch(job):
    return globals()[job[0]](job[1])


def configs(tier, seed):
    out = []
    for cls in ("smc", "emcee_smc", "minipcn", "emcee"):
        for ns in ("numpy", "torch") if cls in ("smc", "minipcn") else ("numpy",):
            for n in (1, 2, 3):
                if n == 3 and (tier == "quick" or ns == "torch" or cls in ("minipcn", "emcee")):
                    continue  # the n=3 tree has ~3e5 executions: thorough only, two sampler classes
                out.append(("run_initial", (cls, ns, n)))
    seeds = sorted({0, seed})
    for sampler in ("importance", "emcee", "minipcn", "smc", "emcee_smc"):
        for precond, sd in itertools.product(("none", "tight", "periodic", "logit_affine", "probit", "affine"), seeds):
            if sampler == "importance" and precond not in ("none", "tight"):
                continue  # "tight": a share of the proposal's draws has zero prior
            for ns, dt in (("numpy", None), ("numpy", "float32"), ("torch", None), ("torch", "float64")):
                if sampler in ("emcee", "emcee_smc") and ns == "torch" and tier == "quick":
                    continue
                if tier == "quick" and dt is not None and precond not in ("none", "logit_affine"):
                    continue
                for sched in ({"adaptive": True, "target_efficiency": 0.8}, {"adaptive": False, "n_steps": 3}):
                    if sampler in ("importance", "emcee", "minipcn") and not sched["adaptive"]:
                        continue
                    out.append(("run_populations", {"sampler": sampler, "N": 8, "opts": dict(sched) if sampler in ("smc", "emcee_smc") else {},
                                                    "cadence": 2, "n_final": 12 if sampler in ("smc", "emcee_smc") else None,
                                                    "precond": precond, "seed": sd, "ns": ns, "dtype": dt}))
    for precond in ("none", "tight", "logit_affine"):
        for mo in ({"burnin": 1, "thin": 2}, {"last_step_only": True}):
            out.append(("run_populations", {"sampler": "minipcn", "N": 8, "opts": {}, "cadence": 2, "n_final": None, "precond": precond, "seed": 0,
                                            "ns": "numpy", "dtype": None, "mcmc_opts": mo}))
        out.append(("run_populations", {"sampler": "emcee", "N": 8, "opts": {}, "cadence": 2, "n_final": None, "precond": precond, "seed": 0,
                                        "ns": "numpy", "dtype": None, "mcmc_opts": {"discard": 1}}))
    # a likelihood that is exactly zero (-inf) on a part of the support (fixed schedules: an adaptive step on such a population is C06's known finding)
    for sampler in ("importance", "emcee", "minipcn", "smc", "emcee_smc"):
        for sd in (0, 1, 2):
            out.append(("run_populations", {"sampler": sampler, "N": 8, "opts": {"adaptive": False, "n_steps": 3} if sampler in ("smc", "emcee_smc") else {},
                                            "cadence": 2, "n_final": 12 if sampler in ("smc", "emcee_smc") else None, "precond": "cut", "seed": sd,
                                            "ns": "numpy", "dtype": None}))
    # runs inside Aspire.enable_pool: the user's callables evaluate row by row through the map function they are handed
    for sampler in ("importance", "emcee", "minipcn", "smc", "emcee_smc"):
        for pool in (True, "prior"):
            for precond in ("none", "tight") if sampler != "importance" else ("none",):
                out.append(("run_populations", {"sampler": sampler, "N": 8, "opts": {"adaptive": True, "target_efficiency": 0.8} if sampler in ("smc", "emcee_smc") else {},
                                                "cadence": 2, "n_final": 12 if sampler in ("smc", "emcee_smc") else None, "precond": precond,
                                                "seed": 0, "ns": "numpy", "dtype": None, "pool": pool}))
    for pre in ("none", "logit"):
        out.append(("run_populations", {"sampler": "blackjax_smc", "N": 8, "seed": 0, "opts": {"adaptive": True, "target_efficiency": 0.8},
                                        "n_final": 12, "precond": pre}))
    for target, precond in (("box", "none"), ("box", "logit"), ("hug", "probit"), ("periodic", "default")):
        for sampler in ("smc", "emcee_smc"):
            # the enlargement to n_final_samples multiplies the tree by (N*4)^n: 1 in quick, 2 in thorough
            out.append(("run_lattice", (target, precond, sampler, 1, None)))
            if precond in ("none", "logit"):
                out.append(("run_lattice", (target, precond, sampler, 1, 1 if tier == "quick" else 3)))
            if tier == "thorough":
                out.append(("run_lattice", (target, precond, sampler, 2, None)))
    return out


def run(tier, seed, workers):
    rep = Report()
    jobs = configs(tier, seed)
    jobs.sort(key=lambda j: 0 if (j[0] == "run_populations" and j[1].get("sampler") == "blackjax_smc") else 1 if j[0] == "run_lattice" else 2)
    for d in pmap("checks.c10", "dispatch", jobs, workers):
        rep.merge(d)
    rep.count("jobs", len(jobs))
    return rep


def replay(case):
    r = Report()
    if case.get("part") == "initial":
        r.merge(run_initial((case["sampler"], case["ns"], case["n"])))
    elif case.get("part") == "lattice":
        r.merge(run_lattice(tuple(case["cfg"])))
    else:
        cfg = case["cfg"]
        te = cfg.get("opts", {}).get("target_efficiency")
        if isinstance(te, list):
            cfg["opts"]["target_efficiency"] = tuple(te)
        r.merge(run_populations(cfg))
    return r
