"""C01 Posterior samples and evidence statistically correct (exact, on lattice
instances): the expectation over *every* random outcome of the real
Aspire.sample_posterior is computed by probability-weighted exploration and
compared with the closed-form Feynman-Kac right-hand side."""
import math

import mpmath as mp
import numpy as np

from env import get_dtype, get_xp, tonp
from env.choice_rng import ChoiceRNG
from env.lattice import exact_rhs, exact_rhs_nd, make_flow, make_flow_nd, model_1d, model_2d, proposal_masses
from env.targets import Monitor
from mc import explorer
from mc.par import pmap
from mc.report import Report

LEVEL = "exploration"
RULE = ("probability-weighted exhaustive exploration of every proposal draw x resampling index tuple x kernel "
        "proposal/accept outcome of real Aspire.sample_posterior on lattice models (target x preconditioning x "
        "sampler x schedule length x n_final_samples x proposal masses x namespace; 1-D with N=2 or 3 particles and 2-D product lattices); one evaluation = one complete "
        "execution; non-trivial = execution whose particles are not all at the same lattice point or that contains "
        "a rejected/moved kernel step; distinct = distinct (config, choice sequence)")
ASSUMPTIONS = [
    "kernel packages are modelled by a symmetric +-h lattice Metropolis stub (any kernel leaving its target invariant satisfies the identity)",
    "fixed temperature schedules only: finite-N unbiasedness is not a theorem for adaptive schedules (DESIGN.md section 5)",
    "lattice instances with K<=3 support points and N=2 particles",
]

FS = [lambda x: mp.mpf(1), lambda x: x, lambda x: x * x]


def run_tree(cfg):
    import _kernel
    import orng
    from aspire import Aspire

    target, precond, sampler, T, nfinal, K, skew, ns = cfg
    dt = None
    if ":" in ns:
        ns, dt = ns.split(":")
    r = Report()
    case = dict(target=target, precond=precond, sampler=sampler, n_steps=T, n_final=nfinal, K=K, skew=skew,
                ns=ns if dt is None else f"{ns}:{dt}")
    # precision of torch populations is C15's business (requested float64 is not honoured everywhere);
    # C01 only asks for correctness up to rounding of the narrowest width that may occur
    f32 = ns == "torch" or dt == "float32"
    tol = 2e-5 if f32 else 1e-9
    N = 2
    dims = 1
    if target.endswith("-2d"):
        dims = 2
        m = model_2d(target[:-3], precond, 2)
        Q = proposal_masses(4, skew)
        rhs = exact_rhs_nd(m, FS)
    else:
        if target.endswith("-n3"):
            N = 3
        m = model_1d(target.replace("-n3", ""), precond, K)
        Q = proposal_masses(K, skew)
        rhs = exact_rhs(m, FS)
    xp = get_xp(ns)

    def body(ctx):
        _kernel.reset(mode="lattice", h=m.get("hvec", m["h"]), ctx=ctx)
        rng = ChoiceRNG(ctx)
        orng.CONFIG["factory"] = lambda: rng
        _kernel.CONFIG["emcee_seed"] = 0
        mon = Monitor(m["like"], m["prior"], ns)
        flow = make_flow(m, Q, ctx, ns) if dims == 1 else make_flow_nd(m, Q, ctx, ns)
        flow.tol = 1e-5
        a = Aspire(log_likelihood=mon.log_likelihood, log_prior=mon.log_prior, dims=dims, parameters=m["parameters"],
                   prior_bounds=m["bounds"], periodic_parameters=m["periodic"], flow=flow, xp=xp,
                   dtype=get_dtype(ns, dt))
        if sampler == "importance":
            s = a.sample_posterior(n_samples=N, sampler="importance")
            w = tonp(s.weights).astype(np.float64)
            x = tonp(s.x).astype(np.float64).reshape(len(w), -1)[:, 0]
            return ("is", float(tonp(s.log_evidence)), w.tolist(), x.tolist())
        kw = dict(n_steps=T, adaptive=False, n_final_samples=nfinal)
        if target == "cut":
            # A population whose particles all have zero likelihood has no weights to resample with: numpy's
            # Generator.choice (and the facade) raise on the NaN probability vector.  The estimator of such an
            # execution is Z_hat = 0, which is what it contributes to the exact expectation.
            try:
                return _smc(a, smp_kind=sampler, kw=kw, rng=rng)
            except ValueError as e:
                dead = len(m["xs"]) - 1
                if all(i == dead for i in flow.draw_log[0]) and ("probabilities" in str(e) or "NaN" in str(e)):
                    return ("dead", -math.inf, None, [0.0] * N)
                raise
        return _smc(a, smp_kind=sampler, kw=kw, rng=rng)

    def _smc(a, smp_kind, kw, rng):
        sampler = smp_kind
        if sampler == "smc":
            kw["sampler_kwargs"] = {"n_steps": 1}
            s = a.sample_posterior(n_samples=N, sampler="smc", preconditioning=m["preconditioning"],
                                   preconditioning_kwargs=dict(m["precond_kwargs"]) if m["precond_kwargs"] else None, **kw)
        else:
            smp = a.init_sampler("emcee_smc", preconditioning=m["preconditioning"],
                                 preconditioning_kwargs=dict(m["precond_kwargs"]) if m["precond_kwargs"] else None)
            smp.rng = rng
            kw["sampler_kwargs"] = {"nsteps": 1, "progress": False}
            s = smp.sample(N, **kw)
        x = tonp(s.x).astype(np.float64).reshape(len(s.x), -1)[:, 0]
        return ("smc", float(tonp(s.log_evidence)), None, x.tolist())

    tot_p = mp.mpf(0)
    lhs = [mp.mpf(0)] * 3
    n_exec = 0
    try:
        for ex in explorer.explore(body, weighted=True):
            n_exec += 1
            kind, logz, w, x = ex.result
            p = mp.mpf(ex.prob)
            tot_p += p
            xs = [mp.mpf(v) for v in x]
            for k, f in enumerate(FS):
                if kind == "dead":
                    continue
                if kind == "is":
                    val = mp.fsum(mp.mpf(wi) * f(xi) for wi, xi in zip(w, xs)) / len(xs)
                else:
                    val = mp.exp(mp.mpf(logz)) * mp.fsum(f(xi) for xi in xs) / len(xs)
                lhs[k] += p * val
            if kind == "is":
                zhat = math.exp(logz)
                if abs(zhat - sum(w) / len(w)) > max(1e-12, tol) * zhat:
                    r.violation("C01/importance/evidence-not-mean-weight", {"logz": logz, "w": w}, dict(case, choices=ex.choices))
            nontrivial = len(set(x)) > 1 or any(c != 0 for c in ex.choices)
            r.case(explorer.digest([case, ex.choices]), nontrivial=nontrivial)
            r.outcomes.add(explorer.digest([logz if logz == -math.inf else round(logz, 12), x]))
    except explorer.HarnessError:
        raise
    except Exception as e:
        import traceback

        tb = traceback.extract_tb(e.__traceback__)
        site = next((f"{t.filename.split('/')[-1]}:{t.name}" for t in reversed(tb) if "/aspire/" in t.filename), "?")
        r.case(explorer.digest(case))
        r.violation(f"C01/exception/{type(e).__name__}/{site}", repr(e)[:300], case)
        r.sample(case)
        return r.dump()
    rec = dict(case, executions=n_exec, sum_prob=float(tot_p), lhs=[float(v) for v in lhs], rhs=[float(v) for v in rhs])
    r.sample(rec)
    r.count("trees")
    if abs(tot_p - 1) > 1e-9:
        raise explorer.HarnessError(f"path probabilities sum to {tot_p} for {case}")
    for k, name in enumerate(("Z", "Z*E[x]", "Z*E[x^2]")):
        if abs(lhs[k] - rhs[k]) > tol * abs(rhs[k]):
            r.violation(f"C01/identity/{sampler}/{name}", rec, case)
    return r.dump()


def run_emcee_evidence(cfg):
    """The plain MCMC sampler's evidence is an importance-sampling estimate: it must be the mean weight of an unselected
    batch of n_samples proposal draws (here: of the last batch the proposal handed out), also when part of the proposal's
    mass lies outside the prior and the walkers therefore had to be drawn by rejection."""
    from env import any_run
    from oracles import ref

    r = Report()
    case = {"emcee_evidence": True, "cfg": cfg}
    r.case(explorer.digest(case), nontrivial=cfg["precond"] == "tight")
    R = any_run.run_simple(cfg)
    if R.exception is not None:
        r.violation(f"C01/emcee/run-raises/{R.exception[0]}/{R.exception[1]}", R.exception, case)
        return r.dump()
    x, lq = R.flow.last_draw
    with np.errstate(all="ignore"):
        lw = R.problem["like"](x) + R.problem["prior"](x) - lq
    lw = np.where(np.isnan(lw), -np.inf, lw)
    want = float(ref.log_mean_exp(lw.tolist()))
    got = float(tonp(R.final_obj.log_evidence))
    r.outcomes.add(round(want, 9))
    if len(x) != cfg["N"]:
        r.violation("C01/emcee/evidence-batch-size", {"batch": len(x), "n_samples": cfg["N"]}, case)
    elif not abs(got - want) <= (1e-5 if cfg.get("ns") == "torch" else 1e-9) * (1 + abs(want)):  # torch's default width is float32
        r.violation("C01/emcee/evidence-not-mean-weight-of-a-proposal-batch", {"got": got, "want": want, "zero_weight_draws": int(np.sum(~np.isfinite(lw)))}, case)
    r.sample(case)
    return r.dump()


def configs(tier):
    out = []
    # "cut": likelihood with a hard support cut (zero-weight particles); "leak": proposal support leaks
    # outside the prior box (importance sampling only: SMC redraws such points in an unbounded loop)
    for target in ("box", "hug", "periodic", "cut", "leak"):
        preconds = ["default"] if target == "periodic" else ["none"] if target == "leak" else ["none", "default", "logit", "probit"]
        for precond in preconds:
            for skew in ("flat", "skew"):
                out.append((target, precond, "importance", 0, None, 3, skew, "numpy"))
                if tier == "thorough" or skew == "skew":
                    out.append((target, precond, "importance", 0, None, 3, skew, "torch"))
                for sampler in ("smc", "emcee_smc"):
                    if target == "leak":
                        continue
                    for T in (1, 2) if tier == "quick" else (1, 2, 3):
                        for nfinal in (None, 1):
                            K = 3 if T == 1 else 2
                            if target == "periodic":
                                K = 3
                            if tier == "quick":
                                if T == 2 and (nfinal is not None or skew == "flat"):
                                    continue
                                if T == 2 and target == "periodic" and sampler == "emcee_smc":
                                    continue
                            if T == 3 and (nfinal is not None or skew == "flat" or target == "periodic"):
                                continue
                            out.append((target, precond, sampler, T, nfinal, K, skew, "numpy"))
                            if T == 1 and nfinal is None and sampler == "smc" and skew == "skew":
                                out.append((target, precond, sampler, T, nfinal, K, skew, "torch"))
                                out.append((target, precond, sampler, T, nfinal, K, skew, "torch:float64"))
                                out.append((target, precond, sampler, T, nfinal, K, skew, "numpy:float32"))
    # two dimensions (product lattice, 2 points per dimension) and N=3 particles, one temperature step
    for precond in ("none", "logit", "probit"):
        for sampler in ("importance", "smc", "emcee_smc"):
            out.append(("box-2d", precond, sampler, 0 if sampler == "importance" else 1, None, 2, "skew", "numpy"))
    out.append(("periodic-2d", "default", "smc", 1, None, 2, "skew", "numpy"))
    for precond in ("none", "logit"):
        out.append(("box-n3", precond, "smc", 1, None, 2, "skew", "numpy"))
    if tier == "thorough":
        out.append(("box-2d", "logit", "smc", 2, None, 2, "skew", "numpy"))
        out.append(("box-n3", "probit", "emcee_smc", 1, 1, 2, "skew", "numpy"))
    return out


def run(tier, seed, workers):
    cfgs = configs(tier)
    # biggest trees first for load balance
    cfgs.sort(key=lambda c: -(c[3] * 10 + (c[4] or 0)))
    rep = Report()
    for d in pmap("checks.c01", "run_tree", cfgs, workers):
        rep.merge(d)
    ecfgs = []
    for precond in ("none", "tight"):
        for ns in ("numpy", "torch"):
            for sd in sorted({0, 1, seed}):
                for N, nw in ((8, None), (8, 12), (12, 8)):  # walkers = / > / < n_samples
                    c = {"sampler": "emcee", "N": N, "opts": {}, "precond": precond, "seed": sd, "ns": ns}
                    if nw:
                        c["mcmc_opts"] = {"nwalkers": nw}
                    ecfgs.append(c)
    for d in pmap("checks.c01", "run_emcee_evidence", ecfgs, workers):
        rep.merge(d)
    return rep


def replay(case):
    r = Report()
    if case.get("emcee_evidence"):
        r.merge(run_emcee_evidence(case["cfg"]))
        return r
    cfg = (case["target"], case["precond"], case["sampler"], case["n_steps"], case["n_final"], case["K"], case["skew"], case["ns"])
    r.merge(run_tree(cfg))
    return r
