"""C12 An interrupted run always leaves a loadable, current checkpoint file.

Fault enumeration over every user-callable call index of runs that checkpoint
into a real HDF5 file, for every cadence x run length x payload-size sequence;
after each fault the file is compared byte for byte with the last payload."""
import itertools
import os
import pickle
import shutil
import tempfile

import h5py
import numpy as np

from env import get_xp, tonp
from env import resume_harness as rh
from env.flows import AnalyticFlow
from env.targets import InjectedFault, InjectedInterrupt, Monitor
from mc import explorer
from mc.par import pmap
from mc.report import Report

LEVEL = "fault_enumeration"
RULE = ("(cadence 1,2,3,5) x (run length 1..6 iterations, fixed and adaptive) x sampler x every call index k of the user's "
        "likelihood/prior (an exception, and a KeyboardInterrupt, raised inside call k) through Aspire.sample_posterior(checkpoint_path=file); payload-size "
        "sequences: three consecutive runs into the same file for every permutation of n_samples in {4,8,16} with a fault at "
        "every call of the last run, and all 27 size sequences over {tiny,large,medium} through dump_state; zuko route: "
        "Aspire.resume_from_file on the file left by each fault, continued from the file (resume_from=file) with the cadence checked on the rest of the run, by the documented no-argument call and with the cadence override resume_kwargs={checkpoint_every: 2|3}. non-trivial = crash point with a checkpoint in the file; "
        "distinct = distinct (config, crash point)")
ASSUMPTIONS = [
    "interruption = Python exception at a user-callable boundary; torn writes inside HDF5 are not modelled",
    "checkpoint writes are observed by wrapping Sampler.default_checkpoint_callback from the harness",
]

LOG = []


def install_probe(mon_ref):
    """Wrap Sampler.default_checkpoint_callback (class level, harness side) to log every write."""
    from aspire.samplers.base import Sampler

    if not hasattr(Sampler, "_verif_orig_cb"):
        Sampler._verif_orig_cb = Sampler.default_checkpoint_callback

        def wrapped(self, state):
            Sampler._verif_orig_cb(self, state)
            LOG.append({"iteration": state["iteration"], "bytes": self._last_checkpoint_bytes,
                        "n_calls": mon_ref[0].n_calls if mon_ref[0] is not None else None})

        Sampler.default_checkpoint_callback = wrapped


MON = [None]


def one_run(cfg, path, fault_at=None, n_samples=None, via="path", stamp="", fault_exc=InjectedFault, resume=False):
    import _kernel
    import orng
    from aspire import Aspire

    install_probe(MON)
    p = rh.problem(cfg.get("precond", "none"))
    sampler = cfg["sampler"]
    _kernel.reset(mode="prw" if sampler == "smc" else "det", scale=0.6, horizon=200)
    orng.CONFIG["factory"] = None
    orng.CONFIG["seed"] = cfg["seed"]
    mon = Monitor(p["like"], p["prior"], "numpy", fault_at=fault_at, keep_points=False, fault_exc=fault_exc)
    MON[0] = mon
    flow = AnalyticFlow(2, seed=cfg["seed"] + 1000, **p["flow"])
    flow.stamp = stamp
    a = Aspire(log_likelihood=mon.log_likelihood, log_prior=mon.log_prior, dims=2, parameters=p["parameters"],
               prior_bounds=p["bounds"], periodic_parameters=p["periodic"], flow=flow, xp=get_xp("numpy"))
    if sampler == "emcee_smc":
        # EmceeSMC accepts no generator at all: own its random source by wrapping the instance's
        # init_sampler (harness side) so that the run is reproducible
        orig_init = a.init_sampler

        def init_sampler(*args, **kwargs):
            smp = orig_init(*args, **kwargs)
            smp.rng = np.random.default_rng(cfg["seed"])
            return smp

        a.init_sampler = init_sampler
    kw = dict(cfg["opts"])
    kw["sampler_kwargs"] = {"n_steps": 1} if sampler == "smc" else {"nsteps": 1, "progress": False}
    if resume:
        kw["resume_from"] = path  # carry on from the checkpoint in the file, still checkpointing into it
    out = rh.Run()
    out.exception = None
    cb_log = []
    try:
        if via == "path":
            a.sample_posterior(n_samples=n_samples or cfg["N"], sampler=sampler, preconditioning=p["preconditioning"],
                               checkpoint_path=path, checkpoint_every=cfg["cadence"], **kw)
        else:  # user callback + cadence through the public entry point
            a.sample_posterior(n_samples=n_samples or cfg["N"], sampler=sampler, preconditioning=p["preconditioning"],
                               checkpoint_callback=lambda st: cb_log.append(st["iteration"]),
                               checkpoint_every=cfg["cadence"], **kw)
    except InjectedFault as e:
        out.exception = ("InjectedFault", str(e))
    except InjectedInterrupt as e:
        out.exception = ("InjectedInterrupt", str(e))
    except Exception as e:  # anything else escaping from aspire is a verdict for this case
        from env import exc_site

        out.exception = (type(e).__name__, exc_site(e), str(e)[:200])
    out.aspire = a
    out.n_calls = mon.n_calls
    out.cb_log = cb_log
    out.iterations = len(a.sampler.history.beta) if a.sampler is not None and a.sampler.history is not None else 0
    return out


def expected_iterations(T, every):
    return [i for i in range(1, T + 1) if i % every == 0] + [T]


def file_state(path):
    out = {"config": False, "flow": False, "bytes": None}
    if not os.path.exists(path):
        return out
    with h5py.File(path, "r") as f:
        out["config"] = "aspire_config" in f
        out["flow"] = "flow" in f
        if "checkpoint" in f and "state" in f["checkpoint"]:
            out["bytes"] = f["checkpoint"]["state"][...].tobytes()
    return out


def check_file(rep, path, last_bytes, case, sig_prefix="C12"):
    st = file_state(path)
    if not st["config"]:
        rep.violation(f"{sig_prefix}/file/config-missing", st["config"], case)
    if not st["flow"]:
        rep.violation(f"{sig_prefix}/file/flow-missing", st["flow"], case)
    if last_bytes is None:
        if st["bytes"] is not None:
            rep.violation(f"{sig_prefix}/file/checkpoint-present-before-first-write", len(st["bytes"]), case)
        return st
    if st["bytes"] is None:
        rep.violation(f"{sig_prefix}/file/checkpoint-missing", None, case)
        return st
    if st["bytes"] != last_bytes:
        kind = ("stale-suffix" if st["bytes"][: len(last_bytes)] == last_bytes else
                "truncated" if last_bytes[: len(st["bytes"])] == st["bytes"] else "different")
        rep.violation(f"{sig_prefix}/file/bytes-differ/{kind}", {"file": len(st["bytes"]), "payload": len(last_bytes)}, case)
    try:
        state = pickle.loads(st["bytes"])
        if not isinstance(state, dict) or "samples" not in state:
            rep.violation(f"{sig_prefix}/file/payload-not-a-checkpoint", type(state).__name__, case)
    except Exception as e:
        rep.violation(f"{sig_prefix}/file/unloadable/{type(e).__name__}", repr(e)[:200], case)
    return st


def run_config(cfg):
    rep = Report()
    tmpdir = tempfile.mkdtemp(prefix="c12_")
    try:
        every = cfg["cadence"]
        ref = os.path.join(tmpdir, "ref.h5")
        del LOG[:]
        R = one_run(cfg, ref)
        if R.exception is not None:
            rep.case(explorer.digest(["ref", cfg]))
            rep.violation(f"C12/run-raises/{R.exception[0]}/{R.exception[1]}", R.exception, {"cfg": cfg, "stage": "reference"})
            return rep.dump()
        log = list(LOG)
        T = R.iterations
        case0 = {"cfg": cfg, "stage": "reference"}
        got = [e["iteration"] for e in log]
        rep.case(explorer.digest(["ref", cfg]), nontrivial=True)
        if got != expected_iterations(T, every):
            rep.violation(f"C12/cadence/path/every={every}", {"written_at": got, "expected": expected_iterations(T, every), "iterations": T}, case0)
        check_file(rep, ref, log[-1]["bytes"] if log else None, case0)
        K = R.n_calls
        for k in range(K):
            path = os.path.join(tmpdir, f"f{k}.h5")
            del LOG[:]
            F = one_run(cfg, path, fault_at=k)
            if F.exception is None:
                raise explorer.HarnessError("fault did not surface")
            if F.exception[0] != "InjectedFault":
                rep.case(explorer.digest([cfg, k]))
                rep.violation(f"C12/run-raises/{F.exception[0]}/{F.exception[1]}", F.exception, {"cfg": cfg, "crash_point": k})
                continue
            flog = list(LOG)
            want = [e for e in log if e["n_calls"] <= k]
            case = {"cfg": cfg, "crash_point": k}
            rep.case(explorer.digest([cfg, k]), nontrivial=bool(want))
            if [e["iteration"] for e in flog] != [e["iteration"] for e in want]:
                rep.violation(f"C12/cadence/faulted/every={every}", {"written_at": [e["iteration"] for e in flog],
                                                                       "expected": [e["iteration"] for e in want]}, case)
            last = flog[-1]["bytes"] if flog else None
            check_file(rep, path, last, case)
            if last is not None and F.aspire.sampler.last_checkpoint_bytes != last:
                rep.violation("C12/last_checkpoint_bytes-not-last-write", None, case)
            rep.outcomes.add(explorer.digest([e["iteration"] for e in flog]))
            if flog:
                # carry on from the file the fault left: the rest of the run writes at the iterations the cadence dictates
                # and once at the end (also when only the final enlargement is left to do)
                it0 = flog[-1]["iteration"]
                del LOG[:]
                RR = one_run(cfg, path, resume=True)
                rlog = list(LOG)
                caser = {"cfg": cfg, "crash_point": k, "stage": "resumed-from-the-file", "resumed_from_iteration": it0}
                rep.case(explorer.digest([cfg, k, "resumed"]), nontrivial=True)
                if RR.exception is not None:
                    rep.violation(f"C12/resumed/run-raises/{RR.exception[0]}/{RR.exception[1] if len(RR.exception) > 2 else ''}", RR.exception, caser)
                else:
                    want_r = [i for i in range(it0 + 1, T + 1) if i % every == 0] + [T]
                    if [e["iteration"] for e in rlog] != want_r:
                        rep.violation(f"C12/cadence/resumed/every={every}", {"written_at": [e["iteration"] for e in rlog], "expected": want_r,
                                                                               "resumed_from": it0, "iterations": T}, caser)
                    check_file(rep, path, rlog[-1]["bytes"] if rlog else last, caser)
            os.remove(path)
            # the same crash point hit by a KeyboardInterrupt instead of an exception
            del LOG[:]
            FI = one_run(cfg, path, fault_at=k, fault_exc=InjectedInterrupt)
            ilog = list(LOG)
            casei = {"cfg": cfg, "crash_point": k, "fault": "KeyboardInterrupt"}
            rep.case(explorer.digest([cfg, k, "interrupt"]), nontrivial=bool(want))
            if FI.exception is None or FI.exception[0] != "InjectedInterrupt":
                rep.violation(f"C12/interrupt-not-propagated/{FI.exception[0] if FI.exception else 'swallowed'}", FI.exception, casei)
            else:
                if [e["iteration"] for e in ilog] != [e["iteration"] for e in want]:
                    rep.violation(f"C12/cadence/interrupted/every={every}", {"written_at": [e["iteration"] for e in ilog],
                                                                               "expected": [e["iteration"] for e in want]}, casei)
                check_file(rep, path, ilog[-1]["bytes"] if ilog else None, casei)
            if os.path.exists(path):
                os.remove(path)
        # Observation only (outside the property, which is about sampling *with a checkpoint file*):
        # sample_posterior(checkpoint_callback=cb, checkpoint_every=c) without a path consumes
        # checkpoint_every itself, so a user callback is invoked every iteration whatever c is.
        del LOG[:]
        C = one_run(cfg, None, via="callback")
        if C.cb_log != expected_iterations(C.iterations, every):
            rep.count("observation:callback-cadence-ignored-without-checkpoint_path")
        rep.sample({"cfg": cfg, "iterations": T, "calls": K, "written_at": got})
        rep.count("configs")
        rep.count("crash_points", K)
    finally:
        shutil.rmtree(tmpdir, ignore_errors=True)
    return rep.dump()


def run_sizes(perm):
    """Three consecutive runs into the same file, fault at every call of the last one."""
    rep = Report()
    tmpdir = tempfile.mkdtemp(prefix="c12s_")
    try:
        base = {"sampler": "smc", "N": 4, "opts": {"adaptive": False, "n_steps": 2}, "cadence": 1, "seed": 0}
        shared = os.path.join(tmpdir, "shared.h5")
        last = None
        for i, n in enumerate(perm[:2]):
            del LOG[:]
            r = one_run(base, shared, n_samples=n, stamp=f"run{i}")
            if r.exception is not None:
                rep.case(explorer.digest([perm, i]))
                rep.violation(f"C12/size-sequence/run-raises/{r.exception[0]}/{r.exception[1]}", r.exception,
                              {"sizes": list(perm), "stage": f"run-{i}"})
                return rep.dump()
            last = LOG[-1]["bytes"]
            case = {"sizes": list(perm), "stage": f"after-run-{i}"}
            rep.case(explorer.digest([perm, i]), nontrivial=True)
            check_file(rep, shared, last, case, "C12/size-sequence")
        del LOG[:]
        probe = one_run(base, os.path.join(tmpdir, "probe.h5"), n_samples=perm[2])
        K = probe.n_calls
        for k in list(range(K)) + [None]:
            path = os.path.join(tmpdir, f"s{k}.h5")
            shutil.copy(shared, path)
            del LOG[:]
            rr = one_run(base, path, fault_at=k, n_samples=perm[2], stamp="run2")
            if rr.exception is not None and rr.exception[0] != "InjectedFault":
                rep.case(explorer.digest([perm, "k", k]))
                rep.violation(f"C12/size-sequence/run-raises/{rr.exception[0]}/{rr.exception[1]}", rr.exception,
                              {"sizes": list(perm), "crash_point": k})
                continue
            cur = LOG[-1]["bytes"] if LOG else last
            case = {"sizes": list(perm), "crash_point": k}
            rep.case(explorer.digest([perm, "k", k]), nontrivial=True)
            check_file(rep, path, cur, case, "C12/size-sequence")
            os.remove(path)
        rep.sample({"sizes": list(perm), "crash_points": K})
        rep.count("size_sequences")
    finally:
        shutil.rmtree(tmpdir, ignore_errors=True)
    return rep.dump()


def run_dump_state(_):
    from aspire.utils import AspireFile, dump_state

    rep = Report()
    tmpdir = tempfile.mkdtemp(prefix="c12d_")
    try:
        blobs = {"tiny": {"a": 1}, "large": {"x": np.arange(5000.0), "s": "y" * 3000}, "medium": {"x": np.arange(300.0)}}
        for seq in itertools.product(blobs, repeat=3):
            path = os.path.join(tmpdir, "d.h5")
            if os.path.exists(path):
                os.remove(path)
            for i, name in enumerate(seq):
                case = {"dump_state_sequence": list(seq), "step": i}
                try:
                    with AspireFile(path, "a") as f:
                        dump_state(blobs[name], f, path="checkpoint", dsetname="state")
                except Exception as e:
                    rep.case(explorer.digest(case))
                    rep.violation(f"C12/dump_state/raises/{type(e).__name__}", repr(e)[:200], case)
                    break
                want = pickle.dumps(blobs[name], protocol=pickle.HIGHEST_PROTOCOL)
                with h5py.File(path, "r") as f:
                    got = f["checkpoint"]["state"][...].tobytes()
                case = {"dump_state_sequence": list(seq), "step": i}
                rep.case(explorer.digest(case), nontrivial=i > 0 and seq[i] != seq[i - 1])
                if got != want:
                    kind = "stale-suffix" if got[: len(want)] == want else "truncated" if want[: len(got)] == got else "different"
                    rep.violation(f"C12/dump_state/bytes-differ/{kind}", {"file": len(got), "payload": len(want)}, case)
        rep.sample({"dump_state_sequences": 27})
    finally:
        shutil.rmtree(tmpdir, ignore_errors=True)
    return rep.dump()


def run_zuko(cfg):
    """The file left by each fault is accepted by Aspire.resume_from_file and primes it with the last payload."""
    from checks import c11_file

    install_probe(MON)
    rep = Report()
    tmpdir = tempfile.mkdtemp(prefix="c12z_")
    try:
        import _kernel
        from aspire import Aspire

        ctx = bool(cfg.get("in_context"))
        probe = c11_file.one_run(cfg, os.path.join(tmpdir, "p.h5"), in_context=ctx)
        if probe.exception is not None:
            rep.case(explorer.digest([cfg, "probe"]))
            rep.violation(f"C12/zuko/run-raises/{probe.exception[0]}/{probe.exception[1]}", probe.exception, {"cfg": cfg, "route": "zuko"})
            return rep.dump()
        K = probe.n_calls
        for k in range(0, K, cfg.get("stride", 2)):
            path = os.path.join(tmpdir, f"z{k}.h5")
            del LOG[:]
            F = c11_file.one_run(cfg, path, fault_at=k, in_context=ctx)
            last = LOG[-1]["bytes"] if LOG else None
            case = {"cfg": cfg, "crash_point": k, "route": "zuko+resume_from_file"}
            rep.case(explorer.digest([cfg, "z", k]), nontrivial=last is not None)
            check_file(rep, path, last, case, "C12/zuko")
            p = rh.problem(cfg["precond"])
            mon = Monitor(p["like"], p["prior"], "numpy")
            try:
                a = Aspire.resume_from_file(path, log_likelihood=mon.log_likelihood, log_prior=mon.log_prior)
            except Exception as e:
                rep.violation(f"C12/zuko/resume_from_file-raises/{type(e).__name__}", repr(e)[:300], case)
                continue
            primed = getattr(a, "_resume_from_default", None)
            if last is not None and primed != last:
                rep.violation("C12/zuko/not-primed-with-last-payload", {"primed": None if primed is None else len(primed)}, case)
            if last is None and primed is not None:
                rep.violation("C12/zuko/primed-without-checkpoint", None, case)
            if a.flow is None:
                rep.violation("C12/zuko/flow-not-loaded", None, case)
            if last is not None and k % (2 * cfg.get("stride", 2)) == 0:
                # "all loadable by the documented resume route": the resumed instance must be able to carry on
                # with no sampler argument (everything taken from the file)
                import shutil as _sh

                pristine = path + ".pristine.h5"  # the resumed run below goes on writing to the file it was resumed from
                _sh.copy(path, pristine)
                rr = c11_file.one_run(cfg, path, resume=True, finish_resume=True)
                rep.case(explorer.digest([cfg, "z-resume", k]), nontrivial=True)
                if rr.exception is not None:
                    rep.violation(f"C12/zuko/documented-resume-route-fails/{rr.exception[0]}/{rr.exception[1]}", rr.exception, case)
                # ... and with the documented cadence override (resume_kwargs={"checkpoint_every": c}): the resumed part of
                # the run writes its checkpoints at the iterations that cadence dictates, plus once at the end
                import pickle

                it0 = pickle.loads(last)["iteration"]
                for c2 in (2, 3):
                    cpy = path + f".c{c2}.h5"
                    _sh.copy(pristine, cpy)
                    del LOG[:]
                    ro = c11_file.one_run(cfg, cpy, resume=True, finish_resume=True, resume_kwargs={"checkpoint_every": c2})
                    written = [e["iteration"] for e in LOG]
                    rep.case(explorer.digest([cfg, "z-resume-cadence", k, c2]), nontrivial=True)
                    c3 = dict(case, resume_cadence=c2, resumed_from_iteration=it0)
                    if ro.exception is not None:
                        rep.violation(f"C12/zuko/resume-with-cadence-override-fails/{ro.exception[0]}/{ro.exception[1]}", ro.exception, c3)
                    else:
                        T = len(ro.history["beta"])
                        want_w = [i for i in range(it0 + 1, T + 1) if i % c2 == 0] + [T]
                        if written != want_w:
                            rep.violation(f"C12/cadence/resumed-with-override/every={c2}", {"written_at": written, "expected": want_w,
                                                                                           "resumed_from": it0, "iterations": T}, c3)
                    os.remove(cpy)
                os.remove(pristine)
            os.remove(path)
        rep.sample({"cfg": cfg, "route": "zuko+resume_from_file", "crash_points": K})
        rep.count("zuko_configs")
    finally:
        shutil.rmtree(tmpdir, ignore_errors=True)
    return rep.dump()


def configs(tier, seed):
    out = []
    lengths = [1, 2, 3, 4, 6]
    for sampler in ("smc", "emcee_smc"):
        for cad in (1, 2, 3, 5):
            for n in lengths:
                if tier == "quick" and sampler == "emcee_smc" and n in (4, 6):
                    continue
                out.append({"sampler": sampler, "N": 6, "opts": {"adaptive": False, "n_steps": n}, "cadence": cad, "seed": 0})
            out.append({"sampler": sampler, "N": 8, "opts": {"adaptive": True, "target_efficiency": 0.8}, "cadence": cad, "seed": seed})
            out.append({"sampler": sampler, "N": 8, "opts": {"adaptive": True, "target_efficiency": 0.8, "n_final_samples": 12},
                        "cadence": cad, "seed": 1})
    return out


def run(tier, seed, workers):
    rep = Report()
    jobs = [("run_config", c) for c in configs(tier, seed)]
    jobs += [("run_sizes", p) for p in itertools.permutations((4, 8, 16))]
    jobs += [("run_dump_state", None)]
    from checks.c11 import SCHEDULES

    zc = [{"sampler": "smc", "N": 8, "opts": dict(SCHEDULES["adaptive"]), "cadence": c, "n_final": None, "precond": "none",
           "seed": 0, "stride": 2 if tier == "quick" else 1} for c in ((1, 2) if tier == "quick" else (1, 2, 3, 5))]
    jobs += [("run_zuko", c) for c in zc]
    jobs += [("run_zuko", dict(c, in_context=True)) for c in zc[:2]]
    for d in pmap("checks.c12", "dispatch", jobs, workers):
        rep.merge(d)
    return rep


def dispatch(job):
    return globals()[job[0]](job[1])


def replay(case):
    rep = Report()
    if "dump_state_sequence" in case:
        rep.merge(run_dump_state(None))
    elif "sizes" in case:
        rep.merge(run_sizes(tuple(case["sizes"])))
    elif case.get("route", "").startswith("zuko"):
        rep.merge(run_zuko(case["cfg"]))
    else:
        rep.merge(run_config(case["cfg"]))
    return rep
