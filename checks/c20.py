"""C20 Runs are reproducible given the same explicit random sources.

Configuration enumeration with a two-run differential oracle: every sampler x
flow back-end x way of supplying the random source x seed is run twice from
scratch (second run after perturbing every unowned global source, and for a
subset in a second interpreter with another PYTHONHASHSEED); outputs must be
bit-identical and the user's generator must be the one that advanced."""
import hashlib
import itertools
import json
import os
import random
import subprocess
import sys

import numpy as np

from env import get_xp, tonp
from env import resume_harness as rh
from mc import explorer
from mc.par import pmap
from mc.report import Report

LEVEL = "exploration"
RULE = ("sampler {importance, minipcn, emcee, smc, emcee_smc, blackjax_smc} x proposal {analytic(seed), zuko(seed, constructed+"
        "trained), flowjax(key, constructed+trained)} x way of supplying the source {sampler constructor, sample() argument, "
        "top-level sample_posterior(rng=), flow seed/key only} x seeds {0,1,VERIF_SEED}; each configuration is executed twice "
        "from scratch with numpy/python/torch global generators re-seeded differently and numpy.random.default_rng / the default "
        "orng.ArrayRNG patched to return differently seeded generators in the two runs (and logging their callers); a subset is "
        "repeated in a fresh interpreter with a different PYTHONHASHSEED; plus pairs of runs that are handed the very same argument objects (a reused sampler_kwargs dictionary); plus the sample-set operations that take a generator (Samples.rejection_sample, SMCSamples.resample) x {numpy, torch, jax} x {float32, float64} x seeds, twice with differently seeded global sources; plus a zuko proposal loaded from a file (ZukoFlow.load / Aspire.resume_from_file) and then sampled, in two sessions with other global seeds; plus, per sampler x preconditioning, the run of a sampler object that has already completed a different run (other seed, size, options) against the run of a fresh object; plus the same seeded fit + importance run twice in one process with an unrelated object built in between (zuko flow float64 / float32 / continuous, flowjax flow, Aspire instance of another dtype). non-trivial = run that consumes random numbers after the "
        "initial draw (everything except pure importance sampling with an analytic proposal)")
ASSUMPTIONS = [
    "stub kernels draw only from the generator object they are handed (minipcn) / from their own RandomState (emcee, like the real package)",
    "single-threaded BLAS/torch/XLA; bit-identity is required only within one machine",
    "sampler/source pairs for which aspire offers no seam at all are listed as 'no seam', not as passes",
]

WAYS = {
    "importance": ["flow"],
    "minipcn": ["sample_kwarg", "top_level"],
    "emcee": ["sample_kwarg", "top_level"],
    "smc": ["constructor", "sample_kwarg", "top_level"],
    "emcee_smc": [],
    "blackjax_smc": ["top_level"],
}


def digest_arrays(objs):
    h = hashlib.sha256()
    for o in objs:
        if o is None:
            h.update(b"None")
        elif isinstance(o, (float, int)):
            h.update(repr(float(o)).encode())
        else:
            a = np.ascontiguousarray(tonp(o))
            h.update(str(a.dtype).encode() + str(a.shape).encode() + a.tobytes())
    return h.hexdigest()


def build_flow(kind, seed, ns, problem):
    from env.flows import AnalyticFlow

    if kind == "analytic":
        return AnalyticFlow(2, seed=seed + 1000, xp_name=ns, **problem["flow"]), None
    return None, kind  # real flow: built and trained by Aspire.fit


def one_run(cfg, salt):
    """Run the configuration once from scratch; ``salt`` differs between the two runs and seeds every unowned source."""
    import _kernel
    import orng
    import torch
    from aspire import Aspire
    from aspire.samples import Samples
    from env.targets import Monitor

    sampler, flowkind, way, seed = cfg["sampler"], cfg["flow"], cfg["way"], cfg["seed"]
    # --- perturb everything the user does not own ---
    np.random.seed(1000 + salt)
    random.seed(2000 + salt)
    torch.manual_seed(3000 + salt)
    calls = []
    real_default_rng = np.random.default_rng

    def patched_default_rng(*a, **k):
        import traceback

        if a or k:
            return real_default_rng(*a, **k)
        fr = traceback.extract_stack(limit=3)[0]
        calls.append(f"{fr.filename.split('/')[-1]}:{fr.name}")
        return real_default_rng(500000 + salt + len(calls))

    np.random.default_rng = patched_default_rng
    arr_calls = []

    def default_arrayrng():
        arr_calls.append(1)
        return real_default_rng(700000 + salt + len(arr_calls))

    orng.CONFIG["factory"] = default_arrayrng
    _kernel.reset(mode="prw", scale=0.5, horizon=500, emcee_seed=None)
    out = {"exception": None}
    try:
        if sampler == "blackjax_smc":
            import jax
            import jax.numpy as jnp
            from env.jax_env import JaxGaussFlow, JaxMonitor

            mon = JaxMonitor([-5.0, -4.0], [5.0, 6.0], [1.0, 2.0], [0.7, 0.9])
            flow = JaxGaussFlow(2, [0.5, 1.0], [2.5, 2.2], seed=seed)
            a = Aspire(log_likelihood=mon.log_likelihood, log_prior=mon.log_prior, dims=2, parameters=["a", "b"],
                       prior_bounds={"a": [-5.0, 5.0], "b": [-4.0, 6.0]}, flow=flow, xp=jnp)
            g = real_default_rng(seed)
            st0 = g.bit_generator.state
            res, hist = a.sample_posterior(n_samples=8, sampler="blackjax_smc", preconditioning="none", rng=g,
                                           rng_key=jax.random.key(seed), n_final_samples=10, return_history=True,
                                           sampler_kwargs={"algorithm": "rwmh", "n_steps": 2, "sigma": 0.3}, adaptive=True,
                                           target_efficiency=0.8)
            out["user_rng_advanced"] = g.bit_generator.state != st0
            out["digest"] = digest_arrays([res.x, res.log_likelihood, res.log_evidence] + list(hist.beta) + list(hist.log_norm_ratio))
            out["default_rng_calls"] = calls
            out["arrayrng_calls"] = len(arr_calls)
            return out
        ns = "numpy"
        p = rh.problem("none")
        mon = Monitor(p["like"], p["prior"], ns, keep_points=False)
        flow, real = build_flow(flowkind, seed, ns, p)
        extra = {}
        if real == "zuko":
            extra = {"flow_backend": "zuko", "seed": seed}
        elif real == "flowjax":
            import jax

            extra = {"flow_backend": "flowjax", "key": jax.random.key(seed)}
        a = Aspire(log_likelihood=mon.log_likelihood, log_prior=mon.log_prior, dims=2, parameters=p["parameters"],
                   prior_bounds=p["bounds"], flow=flow, xp=get_xp(ns), **extra)
        pieces = []
        if real:
            gdata = real_default_rng(seed + 5)
            xs = np.stack([gdata.normal(1.0, 1.0, 64), gdata.normal(2.0, 1.2, 64)], axis=1)
            fitkw = {"n_epochs": 2, "batch_size": 32} if real == "zuko" else {"max_epochs": 2, "batch_size": 32, "show_progress": False}
            hist = a.fit(Samples(x=xs, parameters=p["parameters"], xp=get_xp(ns)), **fitkw)
            pieces += [np.asarray(hist.training_loss, dtype=np.float64), tonp(a.flow.log_prob(xs[:8]))]
        g = real_default_rng(seed)
        st0 = g.bit_generator.state
        kw = {}
        if sampler in ("smc",):
            kw.update(n_final_samples=10, adaptive=True, target_efficiency=0.8, sampler_kwargs={"n_steps": 2})
        if sampler == "minipcn":
            kw.update(n_steps=3)
        if sampler == "emcee":
            kw.update(nsteps=3, nwalkers=8)
        pre = {} if sampler == "importance" else {"preconditioning": "none"}
        if way == "flow":
            res = a.sample_posterior(n_samples=8, sampler=sampler, **pre, **kw)
        elif way == "top_level":
            res = a.sample_posterior(n_samples=8, sampler=sampler, rng=g, **pre, **kw)
        elif way == "sample_kwarg":
            smp = a.init_sampler(sampler, **pre)
            a._sampler = smp
            res = smp.sample(8, rng=g, **kw)
        elif way == "constructor":
            smp = a.init_sampler(sampler, rng=g, **pre)
            a._sampler = smp
            res = smp.sample(8, **kw)
        else:
            raise ValueError(way)
        h = a.sampler.history
        pieces += [res.x, res.log_likelihood, res.log_prior, getattr(res, "log_w", None), res.log_evidence]
        if h is not None:
            pieces += list(h.beta) + list(h.log_norm_ratio) + [s.x for s in h.sample_history]
        out["digest"] = digest_arrays(pieces)
        out["user_rng_advanced"] = g.bit_generator.state != st0
        out["default_rng_calls"] = calls
        out["arrayrng_calls"] = len(arr_calls)
    except Exception as e:
        from env import exc_site

        out["exception"] = (type(e).__name__, exc_site(e), str(e)[:200])
    finally:
        np.random.default_rng = real_default_rng
    return out


def run_config(cfg):
    r = Report()
    case = {"cfg": cfg}
    sampler, way = cfg["sampler"], cfg["way"]
    r.case(explorer.digest(case), nontrivial=not (sampler == "importance" and cfg["flow"] == "analytic"))
    A = one_run(cfg, 1)
    B = one_run(cfg, 2)
    for X, nm in ((A, "A"), (B, "B")):
        if X["exception"] is not None:
            r.violation(f"C20/{sampler}/run-raises/{X['exception'][0]}/{X['exception'][1]}/{way}", X["exception"], case)
            return r.dump()
    supplied = way in ("top_level", "sample_kwarg", "constructor")
    r.outcomes.add(A["digest"])
    if A["digest"] != B["digest"]:
        r.violation(f"C20/{sampler}/not-reproducible/{way}/flow={cfg['flow'] if sampler == 'importance' else 'any'}",
                    {"default_rng_calls": A["default_rng_calls"], "arrayrng_calls": A["arrayrng_calls"],
                     "user_rng_advanced": A["user_rng_advanced"]}, case)
    if supplied:
        if not A["user_rng_advanced"]:
            r.violation(f"C20/{sampler}/user-generator-not-used/{way}", {"default_rng_calls": A["default_rng_calls"],
                                                                         "arrayrng_calls": A["arrayrng_calls"]}, case)
    if cfg.get("second_interpreter"):
        code = ("import sys, json; sys.path.insert(0, %r); import env; env.setup(); from checks import c20; "
                "print('DIGEST=' + json.dumps(c20.one_run(%r, 3)))" % (os.path.dirname(os.path.dirname(os.path.abspath(__file__))), cfg))
        envv = dict(os.environ, PYTHONHASHSEED="4242")
        pr = subprocess.run([sys.executable, "-c", code], capture_output=True, text=True, env=envv, timeout=600)
        line = [l for l in pr.stdout.splitlines() if l.startswith("DIGEST=")]
        r.case(explorer.digest([case, "second-interpreter"]), nontrivial=True)
        if not line:
            raise explorer.HarnessError("second interpreter produced no digest: " + pr.stderr[-500:])
        C = json.loads(line[0][7:])
        if C.get("exception") is None and C["digest"] != A["digest"] and A["digest"] == B["digest"]:
            r.violation(f"C20/{sampler}/not-reproducible-across-interpreters/{way}", None, case)
    r.sample(case)
    return r.dump()


def run_reused_arguments(cfg):
    """Two runs that receive the very same argument objects (the user's sampler_kwargs dictionary is reused) with
    the same seeds must be identical, and the kernel package must be configured identically both times."""
    import _kernel
    import orng
    from aspire import Aspire
    from env.flows import AnalyticFlow
    from env.targets import Monitor

    sampler, seed = cfg["sampler"], cfg["seed"]
    r = Report()
    case = {"reused_arguments": True, "cfg": cfg}
    r.case(explorer.digest(case), nontrivial=True)
    p = rh.problem("none")
    user_kwargs = dict(cfg["sampler_kwargs"])
    snapshot = dict(user_kwargs)
    outs = []
    for rep in range(2):
        _kernel.reset(mode="prw" if sampler == "smc" else "det", scale=0.5, horizon=500)
        orng.CONFIG["factory"] = None
        orng.CONFIG["seed"] = seed
        mon = Monitor(p["like"], p["prior"], "numpy", keep_points=False)
        flow = AnalyticFlow(2, seed=seed + 1000, **p["flow"])
        a = Aspire(log_likelihood=mon.log_likelihood, log_prior=mon.log_prior, dims=2, parameters=p["parameters"],
                   prior_bounds=p["bounds"], flow=flow, xp=get_xp("numpy"))
        try:
            smp = a.init_sampler(sampler, preconditioning="none")
            a._sampler = smp
            if sampler == "emcee_smc":
                smp.rng = np.random.default_rng(seed)
            res = smp.sample(8, adaptive=True, target_efficiency=0.8, n_final_samples=12, sampler_kwargs=user_kwargs)
        except Exception as e:
            from env import exc_site

            r.violation(f"C20/{sampler}/reused-arguments/run-{rep + 1}-raises/{type(e).__name__}/{exc_site(e)}", repr(e)[:200], case)
            return r.dump()
        built = [c for c in _kernel.CONFIG.get("constructed", [])]
        outs.append((digest_arrays([res.x, res.log_likelihood, res.log_evidence] + list(smp.history.beta)), mon.n_calls,
                     built[-1] if built else None))
    if outs[0][0] != outs[1][0]:
        r.violation(f"C20/{sampler}/not-reproducible/reused-sampler_kwargs-dict",
                    {"user_calls": [outs[0][1], outs[1][1]], "kernel_configured": [repr(outs[0][2]), repr(outs[1][2])],
                     "dict_before": repr(snapshot), "dict_after": repr(user_kwargs)}, case)
    r.sample(case)
    return r.dump()


def run_reused_sampler(cfg):
    """The same seeds and inputs give the same run whatever the sampler object did before: a run on a sampler object that
    has already completed another run (other seed, other size, other options) is compared with the run of a fresh object."""
    import _kernel
    import orng
    from aspire import Aspire
    from env.flows import AnalyticFlow
    from env.targets import Monitor

    sampler, seed = cfg["sampler"], cfg["seed"]
    r = Report()
    case = {"reused_sampler": True, "cfg": cfg}
    r.case(explorer.digest(case), nontrivial=True)
    flow_pre = cfg.get("precond") == "flow"  # the sampler fits a zuko flow as its preconditioner (seeded through the instance's flow options)
    p = rh.problem("none" if flow_pre else cfg.get("precond", "none"))

    def one(smp, a, sd, first):
        _kernel.reset(mode="prw" if sampler in ("smc", "minipcn") else "det", scale=0.5, horizon=500, emcee_seed=sd)
        orng.CONFIG["factory"] = None
        orng.CONFIG["seed"] = sd
        a.flow.gen = np.random.default_rng(sd + 1000)  # the proposal's own seeded generator is one of the explicit sources
        g = np.random.default_rng(sd)
        n = 6 if first else 8
        if sampler == "smc":
            kw = dict(adaptive=True, target_efficiency=0.5 if first else 0.8, sampler_kwargs={"n_steps": 3 if first else 2}, rng=g)
            if not first:
                kw["n_final_samples"] = 10
        elif sampler == "emcee_smc":
            smp.rng = g
            kw = dict(adaptive=not first, sampler_kwargs={"nsteps": 2, "progress": False})
            if first:
                kw["n_steps"] = 2
            else:
                kw.update(target_efficiency=0.8, n_final_samples=10)
        elif sampler == "minipcn":
            kw = dict(rng=g, n_steps=2 if first else 3)
        else:
            kw = dict(rng=g, nsteps=2 if first else 3, nwalkers=n)
        res = smp.sample(n, **kw)
        h = smp.history
        pieces = [res.x, res.log_likelihood, res.log_prior, res.log_evidence]
        if h is not None:
            pieces += list(h.beta) + list(h.log_norm_ratio) + list(h.ess) + [s.x for s in h.sample_history]
        return digest_arrays(pieces), (len(h.beta) if h is not None else None)

    def build():
        mon = Monitor(p["like"], p["prior"], "numpy", keep_points=False)
        flow = AnalyticFlow(2, seed=seed + 1000, **p["flow"])
        extra = {"flow_backend": "zuko", "seed": 11, "hidden_features": [8], "transforms": 1} if flow_pre else {}
        a = Aspire(log_likelihood=mon.log_likelihood, log_prior=mon.log_prior, dims=2, parameters=p["parameters"],
                   prior_bounds=p["bounds"], periodic_parameters=p["periodic"], flow=flow, xp=get_xp("numpy"), **extra)
        if flow_pre:
            smp = a.init_sampler(sampler, preconditioning="flow", preconditioning_kwargs={"fit_kwargs": {"n_epochs": 1, "batch_size": 8}})
        else:
            smp = a.init_sampler(sampler, preconditioning=p["preconditioning"], preconditioning_kwargs=dict(p["pk"]) if p["pk"] else None)
        a._sampler = smp
        return a, smp

    try:
        a, smp = build()
        fresh = one(smp, a, seed, False)
        a, smp = build()
        one(smp, a, seed + 17, True)
        again = one(smp, a, seed, False)
    except Exception as e:
        from env import exc_site

        r.violation(f"C20/{sampler}/reused-sampler/raises/{type(e).__name__}/{exc_site(e)}", repr(e)[:200], case)
        return r.dump()
    r.outcomes.add(fresh[0])
    if fresh != again:
        r.violation(f"C20/{sampler}/not-reproducible/sampler-object-used-before", {"iterations_fresh": fresh[1], "iterations_reused": again[1]}, case)
    r.sample(case)
    return r.dump()


def run_legacy_generator(cfg):
    """A generator that is not a numpy.random.Generator instance (the legacy RandomState, which offers the same methods)
    handed to the sampler constructor / to the top-level call: it is the one that drives the run."""
    import _kernel
    import orng
    from aspire import Aspire
    from env.flows import AnalyticFlow
    from env.targets import Monitor

    way, seed = cfg["way"], cfg["seed"]
    r = Report()
    case = {"legacy_generator": True, "cfg": cfg}
    r.case(explorer.digest(case), nontrivial=True)
    p = rh.problem("none")
    outs = []
    real_default_rng = np.random.default_rng
    try:
        for salt in (1, 2):
            np.random.seed(1000 + salt)
            random.seed(2000 + salt)
            n_default = []
            orng.CONFIG["factory"] = lambda: (n_default.append(1), real_default_rng(700000 + salt + len(n_default)))[1]
            _kernel.reset(mode="prw", scale=0.5, horizon=500)
            mon = Monitor(p["like"], p["prior"], "numpy", keep_points=False)
            flow = AnalyticFlow(2, seed=seed + 1000, **p["flow"])
            a = Aspire(log_likelihood=mon.log_likelihood, log_prior=mon.log_prior, dims=2, parameters=p["parameters"],
                       prior_bounds=p["bounds"], flow=flow, xp=get_xp("numpy"))
            g = np.random.RandomState(seed)
            st0 = g.get_state()[1].copy()
            kw = dict(adaptive=True, target_efficiency=0.8, sampler_kwargs={"n_steps": 2}, n_final_samples=10)
            if way == "constructor":
                smp = a.init_sampler("smc", preconditioning="none", rng=g)
                a._sampler = smp
                res = smp.sample(8, **kw)
            else:
                res = a.sample_posterior(n_samples=8, sampler="smc", preconditioning="none", rng=g, **kw)
            h = a.sampler.history
            outs.append((digest_arrays([res.x, res.log_likelihood, res.log_evidence] + list(h.beta)), not np.array_equal(g.get_state()[1], st0), len(n_default)))
    except Exception as e:
        from env import exc_site

        r.violation(f"C20/smc/legacy-generator/raises/{type(e).__name__}/{exc_site(e)}/{way}", repr(e)[:200], case)
        return r.dump()
    finally:
        orng.CONFIG["factory"] = None
    r.outcomes.add(outs[0][0])
    if outs[0][0] != outs[1][0]:
        r.violation(f"C20/smc/not-reproducible/{way}/legacy-generator", {"default_generators_created": outs[0][2], "user_generator_advanced": outs[0][1]}, case)
    if not outs[0][1]:
        r.violation(f"C20/smc/user-generator-not-used/{way}/legacy-generator", {"default_generators_created": outs[0][2]}, case)
    r.sample(case)
    return r.dump()


def run_loaded_flow(cfg):
    """A proposal that comes from a file: load (ZukoFlow.load / Aspire.resume_from_file), then draw - twice, with differently
    seeded global sources in the two sessions.  The flow's stored seed is the only explicit source."""
    import shutil
    import tempfile

    import h5py
    import torch
    from aspire import Aspire
    from aspire.flows import get_flow_wrapper
    from aspire.samples import Samples
    from env.targets import Monitor

    route, seed = cfg["route"], cfg["seed"]
    r = Report()
    case = {"loaded_flow": True, "cfg": cfg}
    r.case(explorer.digest(case), nontrivial=True)
    p = rh.problem("none")
    tmp = tempfile.mkdtemp(prefix="c20l_")
    try:
        path = os.path.join(tmp, "f.h5")
        mon = Monitor(p["like"], p["prior"], "numpy", keep_points=False)
        a = Aspire(log_likelihood=mon.log_likelihood, log_prior=mon.log_prior, dims=2, parameters=p["parameters"], prior_bounds=p["bounds"],
                   xp=get_xp("numpy"), flow_backend="zuko", seed=seed, hidden_features=[8], transforms=1)
        g = np.random.default_rng(seed + 5)
        xs = np.stack([g.normal(1.0, 1.0, 64), g.normal(2.0, 1.2, 64)], axis=1)
        a.fit(Samples(x=xs, parameters=p["parameters"], xp=get_xp("numpy")), n_epochs=1, batch_size=32, checkpoint_path=path)
        outs = []
        for salt in (1, 2):
            np.random.seed(1000 + salt)
            random.seed(2000 + salt)
            torch.manual_seed(3000 + salt)
            _ = torch.rand(salt)  # the ambient torch stream is at another position in the two sessions
            mon2 = Monitor(p["like"], p["prior"], "numpy", keep_points=False)
            if route == "resume_from_file":
                b = Aspire.resume_from_file(path, log_likelihood=mon2.log_likelihood, log_prior=mon2.log_prior)
                res = b.sample_posterior(n_samples=8, sampler="importance")
                outs.append(digest_arrays([res.x, res.log_q, res.log_w, res.log_evidence]))
            else:
                F, _xp = get_flow_wrapper("zuko")
                with h5py.File(path, "r") as f:
                    fl = F.load(f, "flow")
                x, lq = fl.sample_and_log_prob(8)
                outs.append(digest_arrays([x, lq]))
    except Exception as e:
        from env import exc_site

        r.violation(f"C20/loaded-flow/raises/{type(e).__name__}/{exc_site(e)}/{route}", repr(e)[:200], case)
        return r.dump()
    finally:
        shutil.rmtree(tmp, ignore_errors=True)
    r.outcomes.add(outs[0])
    if outs[0] != outs[1]:
        r.violation(f"C20/loaded-flow/not-reproducible/{route}", None, case)
    r.sample(case)
    return r.dump()


def run_other_object_between(cfg):
    """The same seeded fit + importance run twice in one process, with an unrelated object built in between (a flow of
    another precision or back-end, an Aspire instance of another dtype): what another object does to process-wide
    state must not reach a run whose explicit sources are the same."""
    import torch
    from aspire import Aspire
    from aspire.flows import get_flow_wrapper
    from aspire.samples import Samples
    from env.targets import Monitor

    between, seed = cfg["between"], cfg["seed"]
    r = Report()
    case = {"other_object_between": True, "cfg": cfg}
    r.case(explorer.digest(case), nontrivial=True)
    p = rh.problem("none")
    outs = []
    try:
        for part in (1, 2):
            torch.manual_seed(3000)
            np.random.seed(1000)
            mon = Monitor(p["like"], p["prior"], "numpy", keep_points=False)
            a = Aspire(log_likelihood=mon.log_likelihood, log_prior=mon.log_prior, dims=2, parameters=p["parameters"], prior_bounds=p["bounds"],
                       xp=get_xp("numpy"), flow_backend="zuko", seed=seed, hidden_features=[8], transforms=1)  # dtype left to the default
            g = np.random.default_rng(seed + 5)
            xs = np.stack([g.normal(1.0, 1.0, 64), g.normal(2.0, 1.2, 64)], axis=1)
            a.fit(Samples(x=xs, parameters=p["parameters"], xp=get_xp("numpy")), n_epochs=1, batch_size=32)
            res = a.sample_posterior(n_samples=8, sampler="importance")
            outs.append(digest_arrays([res.x, res.log_q, res.log_w, res.log_evidence]) + "/" + str(tonp(res.x).dtype))
            if part == 1:
                if between in ("zuko-float64", "zuko-float32"):
                    F, _ = get_flow_wrapper("zuko")
                    F(dims=3, seed=seed + 9, dtype=between.split("-")[1], hidden_features=[4], transforms=1)
                elif between == "zuko-flow-matching-float64":
                    F, _ = get_flow_wrapper("zuko", flow_matching=True)
                    F(dims=2, seed=seed + 9, dtype="float64", hidden_features=[4])
                elif between == "flowjax-float64":
                    import jax

                    F, _ = get_flow_wrapper("flowjax")
                    F(dims=2, key=jax.random.key(seed), dtype="float64", nn_width=4, nn_depth=1, flow_layers=1)
                elif between == "aspire-float64-init_flow":
                    b = Aspire(log_likelihood=mon.log_likelihood, log_prior=mon.log_prior, dims=2, parameters=p["parameters"],
                               prior_bounds=p["bounds"], xp=get_xp("numpy"), flow_backend="zuko", seed=seed + 3, dtype="float64",
                               hidden_features=[4], transforms=1)
                    b.init_flow()
    except Exception as e:
        from env import exc_site

        r.violation(f"C20/other-object-between/raises/{type(e).__name__}/{exc_site(e)}/{between}", repr(e)[:200], case)
        return r.dump()
    r.outcomes.add(outs[0])
    if outs[0] != outs[1]:
        r.violation(f"C20/other-object-between/not-reproducible/{between}", {"first": outs[0], "second": outs[1]}, case)
    r.sample(case)
    return r.dump()


def run_sample_ops(cfg):
    """The sample-set operations that take a generator (rejection_sample, SMCSamples.resample) in every namespace:
    twice with the same seeded generator and differently seeded global sources (numpy, python, torch)."""
    import torch
    from aspire.samples import Samples, SMCSamples
    from env import get_dtype

    op, ns, dt, seed = cfg["op"], cfg["ns"], cfg["dtype"], cfg["seed"]
    r = Report()
    case = {"sample_ops": True, "cfg": cfg}
    r.case(explorer.digest(case), nontrivial=True)
    xp = get_xp(ns)
    N = 12
    g0 = np.random.default_rng(99)
    x = g0.normal(size=(N, 2))
    L, P, Q = -0.5 * (x ** 2).sum(1), np.full(N, -2.0), -0.5 * ((x / 1.5) ** 2).sum(1) - 1.0
    outs = []
    for salt in (1, 2):
        np.random.seed(1000 + salt)
        random.seed(2000 + salt)
        torch.manual_seed(3000 + salt)
        real_default_rng = np.random.default_rng
        calls = []

        def patched(*a, **k):
            if a or k:
                return real_default_rng(*a, **k)
            calls.append(1)
            return real_default_rng(500000 + salt + len(calls))

        np.random.default_rng = patched
        try:
            kw = dict(x=xp.asarray(x), log_likelihood=xp.asarray(L), log_prior=xp.asarray(P), log_q=xp.asarray(Q),
                      parameters=["a", "b"], xp=xp, dtype=get_dtype(ns, dt))
            g = real_default_rng(seed)
            st0 = g.bit_generator.state
            if op == "rejection":
                out = Samples(**kw).rejection_sample(rng=g)
            else:
                out = SMCSamples(beta=0.0, **kw).resample(0.5, n_samples=cfg.get("n", N), rng=g)
            outs.append((digest_arrays([out.x, out.log_likelihood, out.log_prior, out.log_q]), g.bit_generator.state != st0, len(calls)))
        except Exception as e:
            from env import exc_site

            r.violation(f"C20/samples.{op}/raises/{type(e).__name__}/{exc_site(e)}/{ns}", repr(e)[:200], case)
            return r.dump()
        finally:
            np.random.default_rng = real_default_rng
    r.outcomes.add(outs[0][0])
    if outs[0][0] != outs[1][0]:
        r.violation(f"C20/samples.{op}/not-reproducible/{ns}", {"default_rng_calls": outs[0][2], "user_rng_advanced": outs[0][1]}, case)
    if not outs[0][1]:
        r.violation(f"C20/samples.{op}/user-generator-not-used/{ns}", {"default_rng_calls": outs[0][2]}, case)
    r.sample(case)
    return r.dump()


def dispatch(job):
    return globals()[job[0]](job[1])


def configs(tier, seed):
    out = []
    seeds = sorted({0, 1, seed})
    for sampler, ways in WAYS.items():
        for way in ways:
            flows = ["analytic", "zuko", "flowjax"] if sampler in ("importance", "smc") else ["analytic"]
            if sampler == "blackjax_smc":
                flows = ["jaxgauss"]
            for fl in flows:
                for sd in seeds:
                    if tier == "quick" and fl == "flowjax" and sd != 0:
                        continue
                    if tier == "quick" and fl == "zuko" and sd == seeds[-1] and len(seeds) > 2:
                        continue
                    if sampler == "blackjax_smc" and sd != 0 and tier == "quick":
                        continue
                    out.append({"sampler": sampler, "flow": fl, "way": way, "seed": sd,
                                "second_interpreter": sd == 0 and fl in ("analytic", "zuko") and way in ("flow", "top_level")
                                and sampler in ("importance", "smc", "minipcn")})
    return out


def run(tier, seed, workers):
    rep = Report()
    cfgs = configs(tier, seed)
    cfgs.sort(key=lambda c: 0 if c["flow"] == "flowjax" or c["sampler"] == "blackjax_smc" else 1 if c["second_interpreter"] else 2)
    jobs = [("run_config", c) for c in cfgs]
    for sd in sorted({0, seed}):
        jobs.append(("run_reused_arguments", {"sampler": "smc", "seed": sd, "sampler_kwargs": {"n_steps": 2, "n_final_steps": 5}}))
        jobs.append(("run_reused_arguments", {"sampler": "smc", "seed": sd, "sampler_kwargs": {"n_steps": 2}}))
        jobs.append(("run_reused_arguments", {"sampler": "emcee_smc", "seed": sd,
                                              "sampler_kwargs": {"nsteps": 2, "progress": False, "moves": "user-moves", "n_final_steps": 4}}))
    for sampler in ("smc", "emcee_smc", "minipcn", "emcee"):
        for precond in ("none", "logit_affine") if tier == "quick" else ("none", "logit_affine", "periodic", "tight"):
            for sd in sorted({0, seed}):
                jobs.append(("run_reused_sampler", {"sampler": sampler, "seed": sd, "precond": precond}))
        if sampler in ("smc", "minipcn"):
            jobs.append(("run_reused_sampler", {"sampler": sampler, "seed": 0, "precond": "flow"}))
    for way in ("constructor", "top_level"):
        for sd in (0, 1):
            jobs.append(("run_legacy_generator", {"way": way, "seed": sd}))
    for route in ("resume_from_file", "ZukoFlow.load"):
        for sd in sorted({0, 1, seed}) if tier == "thorough" else (0, 1):
            jobs.append(("run_loaded_flow", {"route": route, "seed": sd}))
    for between in ("zuko-float64", "zuko-float32", "zuko-flow-matching-float64", "flowjax-float64", "aspire-float64-init_flow"):
        jobs.append(("run_other_object_between", {"between": between, "seed": 0}))
    for op, ns, dt in itertools.product(("rejection", "resample"), ("numpy", "torch", "jax"), ("float64", "float32")):
        for sd in sorted({0, 1, seed}):
            if tier == "quick" and sd == 1:
                continue
            jobs.append(("run_sample_ops", {"op": op, "ns": ns, "dtype": dt, "seed": sd}))
            if op == "resample" and tier == "thorough":
                jobs.append(("run_sample_ops", {"op": op, "ns": ns, "dtype": dt, "seed": sd, "n": 20}))
    for d in pmap("checks.c20", "dispatch", jobs, workers):
        rep.merge(d)
    rep.count("configs", len(cfgs))
    rep.notes.append("no seam: emcee_smc accepts no generator (neither constructor nor sample()); importance sampling has no generator "
                     "of its own (its only source is the flow's seed/key)")
    return rep


def replay(case):
    r = Report()
    if case.get("legacy_generator"):
        r.merge(run_legacy_generator(case["cfg"]))
        return r
    if case.get("loaded_flow"):
        r.merge(run_loaded_flow(case["cfg"]))
        return r
    if case.get("other_object_between"):
        r.merge(run_other_object_between(case["cfg"]))
        return r
    if case.get("reused_sampler"):
        r.merge(run_reused_sampler(case["cfg"]))
        return r
    if case.get("sample_ops"):
        r.merge(run_sample_ops(case["cfg"]))
        return r
    if case.get("reused_arguments"):
        r.merge(run_reused_arguments(case["cfg"]))
        return r
    r.merge(run_config(case["cfg"]))
    return r
