"""One entry point that runs any of aspire's six samplers on the continuous
2-D problem of resume_harness with a recording Monitor, and collects every
population the library hands back or records."""
import math
import pickle

import numpy as np

from env import get_dtype, get_xp, tonp
from env import resume_harness as rh
from env.flows import AnalyticFlow
from env.targets import Monitor


def run_simple(cfg):
    """importance / emcee / minipcn through Aspire.sample_posterior."""
    import _kernel
    import orng
    from aspire import Aspire

    p = rh.problem(cfg["precond"])
    ns = cfg.get("ns", "numpy")
    xp = get_xp(ns)
    _kernel.reset(mode="prw", scale=0.5, horizon=500, emcee_seed=cfg["seed"])
    orng.CONFIG["factory"] = None
    orng.CONFIG["seed"] = cfg["seed"]
    mon = Monitor(p["like"], p["prior"], ns, keep_points=True, fault_at=cfg.get("fault_at"))
    mon.ret_dtype = cfg.get("callback_dtype")
    flow = AnalyticFlow(2, seed=cfg["seed"] + 1000, xp_name=ns, dtype=get_dtype(ns, cfg.get("dtype")), **p["flow"])
    a = Aspire(log_likelihood=mon.log_likelihood, log_prior=mon.log_prior, dims=2, parameters=p["parameters"],
               prior_bounds=p["bounds"], periodic_parameters=p["periodic"], flow=flow, xp=xp, dtype=get_dtype(ns, cfg.get("dtype")))
    out = rh.Run()
    out.exception, out.result = None, None
    out.mon, out.aspire, out.flow, out.problem = mon, a, flow, p
    sampler = cfg["sampler"]
    kw = {}
    pre = {}
    if sampler != "importance":
        pre = {"preconditioning": p["preconditioning"], "preconditioning_kwargs": dict(p["pk"]) if p["pk"] else None}
    if sampler == "emcee":
        kw = {"nsteps": 3, "nwalkers": cfg["N"]}
    if sampler == "minipcn":
        kw = {"n_steps": 3, "rng": np.random.default_rng(cfg["seed"])}
    kw.update(cfg.get("mcmc_opts") or {})  # burnin / thin / last_step_only (minipcn), discard (emcee)
    import contextlib

    pool_cm = contextlib.nullcontext()
    if cfg.get("pool"):
        from env.targets import AdversarialPool

        out.pool = AdversarialPool()
        pool_cm = a.enable_pool(out.pool, close_pool=False, parallelize_prior=cfg["pool"] == "prior")
    try:
        with pool_cm:
            res = a.sample_posterior(n_samples=cfg["N"], sampler=sampler, **pre, **kw)
        out.result = {"final": rh.snapshot_samples(res)}
        out.final_obj = res
    except Exception as e:
        from env import exc_site

        out.exception = (type(e).__name__, exc_site(e), str(e)[:200])
    out.history = None
    out.sink = []
    return out


def run_any(cfg, **kw):
    if cfg["sampler"] in ("importance", "emcee", "minipcn"):
        return run_simple(cfg)
    r = rh.run(cfg, keep_points=True, **kw)
    r.problem = rh.problem(cfg["precond"])
    return r


def populations(run):
    """[(name, snapshot)] of every population the library handed back or recorded."""
    pops = []
    if run.result is not None:
        pops.append(("final", run.result["final"]))
    if run.history is not None:
        for i, s in enumerate(run.history["sample_history"]):
            pops.append((f"history[{i}]", s))
    for j, (it, payload) in enumerate(run.sink or []):
        st = pickle.loads(payload)
        pops.append((f"checkpoint[{j}]@it{it}", rh.snapshot_samples(st["samples"])))
    return pops


def coherence(pop, problem, flow, dtype_name):
    """Recompute L, pi, q at the rows' coordinates.  Returns list of (field, row, stored, recomputed)."""
    bad = []
    x = np.asarray(pop["x"], dtype=np.float64).reshape(len(pop["x"]), -1)
    tol = 1e-5 if dtype_name == "float32" else 1e-10
    for f, fn in (("L", problem["like"]), ("P", problem["prior"]), ("Q", lambda xx: tonp(flow.log_prob(xx)).astype(np.float64))):
        if pop.get(f) is None:
            continue
        stored = np.asarray(pop[f], dtype=np.float64).reshape(-1)
        ref = np.asarray(fn(x), dtype=np.float64).reshape(-1)
        for i in range(len(stored)):
            a, b = stored[i], ref[i]
            ok = (a == b) or (math.isfinite(a) and math.isfinite(b) and abs(a - b) <= tol * (1 + abs(b)) * (50 if f == "Q" and dtype_name == "float32" else 1))
            if not ok:
                bad.append((f, i, float(a), float(b)))
    return bad
