"""Crash/resume harness: runs the real SMC samplers on a continuous 2-D problem
with a deterministic environment (seeded generators, stub kernels driven only
by the sampler's generator or by no random source at all), injects a fault at
the k-th user-callable call, and resumes from the last checkpoint."""
import math
import os
import pickle
import tempfile

import numpy as np

from env import get_dtype, get_xp, tonp
from env.flows import AnalyticFlow
from env.targets import InjectedFault, Monitor, box_logprior, gauss_loglike

TWO_PI = 2 * math.pi


def problem(precond):
    """Returns dict with bounds, periodic, preconditioning args."""
    p = {"parameters": ["a", "b"], "dims": 2}
    if precond == "tight":
        # prior box barely wider than the posterior: kernel proposals leave the support all the time
        p["bounds"] = {"a": [0.2, 1.8], "b": [1.2, 2.8]}
        p["periodic"] = None
        p["flow"] = dict(mu=[1.0, 2.0], sigma=[0.5, 0.5])
        p["like"] = gauss_loglike([1.0, 2.0], [0.7, 0.9])
        p["preconditioning"], p["pk"] = "none", None
    elif precond == "periodic":
        p["bounds"] = {"a": [-5.0, 5.0], "b": [0.0, TWO_PI]}
        p["periodic"] = ["b"]
        p["preconditioning"] = "default"
        p["pk"] = None
        p["flow"] = dict(mu=[0.5, 3.0], sigma=[1.5, 1.6])
        p["like"] = gauss_loglike([1.0, 2.5], [0.7, 0.9])
    elif precond == "cut":
        # a likelihood that is exactly zero on a part of the support where the prior is not (hard cut at a < -2.5, ~12 % of the proposal)
        p["bounds"] = {"a": [-5.0, 5.0], "b": [-4.0, 6.0]}
        p["periodic"] = None
        p["flow"] = dict(mu=[0.5, 1.0], sigma=[2.5, 2.2])
        base = gauss_loglike([1.0, 2.0], [0.7, 0.9])

        def cut_like(x):
            x = np.asarray(x, dtype=np.float64).reshape(len(x), -1)
            return np.where(x[:, 0] < -2.5, -np.inf, base(x))

        p["like"] = cut_like
        p["preconditioning"], p["pk"] = "none", None
    elif precond not in ("tight", "cut"):
        p["bounds"] = {"a": [-5.0, 5.0], "b": [-4.0, 6.0]}
        p["periodic"] = None
        p["flow"] = dict(mu=[0.5, 1.0], sigma=[2.5, 2.2])
        p["like"] = gauss_loglike([1.0, 2.0], [0.7, 0.9])
        if precond in ("none", "sloped", "peaked"):
            p["preconditioning"], p["pk"] = "none", None
            if precond == "peaked":
                # a likelihood much narrower than the proposal: a coarse fixed schedule collapses the weights (efficiency < 0.1)
                p["like"] = gauss_loglike([1.0, 2.0], [0.12, 0.15])
        elif precond == "logit_affine":
            p["preconditioning"] = "default"
            p["pk"] = {"bounded_to_unbounded": True, "bounded_transform": "logit", "affine_transform": True}
        elif precond == "probit":
            p["preconditioning"] = "default"
            p["pk"] = {"bounded_to_unbounded": True, "bounded_transform": "probit"}
        elif precond == "affine":
            p["preconditioning"] = "default"
            p["pk"] = {"affine_transform": True}
        else:
            raise ValueError(precond)
    lo = [p["bounds"][k][0] for k in p["parameters"]]
    hi = [p["bounds"][k][1] for k in p["parameters"]]
    p["prior"] = box_logprior(lo, hi)
    if precond == "sloped":
        # a prior that is not constant on its support: a log-prior belonging to other points is then a different number
        box = p["prior"]

        def sloped(x):
            xx = np.asarray(x, dtype=np.float64).reshape(len(x), -1)
            return box(x) + 0.3 * xx[:, 0] - 0.2 * xx[:, 1]

        p["prior"] = sloped
    return p


def snapshot_samples(s):
    return {
        "x": tonp(s.x).copy(), "L": None if s.log_likelihood is None else tonp(s.log_likelihood).copy(),
        "P": None if s.log_prior is None else tonp(s.log_prior).copy(),
        "Q": None if getattr(s, "log_q", None) is None else tonp(s.log_q).copy(),
        "beta": getattr(s, "beta", None), "dtype": str(tonp(s.x).dtype),
    }


def snapshot_history(h):
    if h is None:
        return None
    return {
        "beta": [float(b) for b in h.beta],
        "ess": [float(tonp(v)) for v in h.ess],
        "ess_target": [float(tonp(v)) for v in h.ess_target],
        "eff_target": [float(v) for v in h.eff_target],
        "log_norm_ratio": [float(tonp(v)) for v in h.log_norm_ratio],
        "log_norm_ratio_var": [float(tonp(v)) for v in h.log_norm_ratio_var],
        "mcmc_acceptance": [float(v) for v in h.mcmc_acceptance],
        "mcmc_autocorr": [np.asarray(tonp(v)).tolist() for v in h.mcmc_autocorr],
        "sample_history": [snapshot_samples(s) for s in h.sample_history],
    }


def diff(a, b, path=""):
    """First difference between two snapshot structures (None if equal)."""
    if isinstance(a, dict) and isinstance(b, dict):
        for k in sorted(set(a) | set(b)):
            if k not in a or k not in b:
                return f"{path}/{k}: missing on one side"
            d = diff(a[k], b[k], f"{path}/{k}")
            if d:
                return d
        return None
    if isinstance(a, (list, tuple)) and isinstance(b, (list, tuple)):
        if len(a) != len(b):
            return f"{path}: length {len(a)} vs {len(b)}"
        for i, (x, y) in enumerate(zip(a, b)):
            d = diff(x, y, f"{path}[{i}]")
            if d:
                return d
        return None
    if isinstance(a, np.ndarray) or isinstance(b, np.ndarray):
        a, b = np.asarray(a), np.asarray(b)
        if a.shape != b.shape or a.dtype != b.dtype or not np.array_equal(a, b, equal_nan=True):
            return f"{path}: arrays differ ({a.dtype}{a.shape} vs {b.dtype}{b.shape})"
        return None
    if isinstance(a, float) and isinstance(b, float) and math.isnan(a) and math.isnan(b):
        return None
    if a != b:
        return f"{path}: {a!r} vs {b!r}"
    return None


class Run:
    pass


def run(cfg, fault_at=None, resume_from=None, file_path=None, keep_points=False, fault_exc=InjectedFault):
    """One (possibly faulted, possibly resumed) run of the real sampler.

    cfg keys: sampler, N, opts (schedule), cadence, n_final, n_final_steps, precond, seed, ns, dtype, S
    Checkpoints are collected as pickled bytes through a callback unless
    ``file_path`` is given (then aspire's own file callback writes them)."""
    import _kernel
    import orng
    from aspire import Aspire

    p = problem(cfg["precond"])
    ns = cfg.get("ns", "numpy")
    xp = get_xp(ns)
    seed = cfg["seed"]
    sampler = cfg["sampler"]
    _kernel.reset(mode="prw" if sampler == "smc" else "det", scale=cfg.get("scale", 0.6), horizon=cfg.get("horizon", 200),
                  int_draws=bool(cfg.get("kernel_int_draws")))
    orng.CONFIG["factory"] = None
    orng.CONFIG["seed"] = seed
    mon = Monitor(p["like"], p["prior"], ns, fault_at=fault_at, fault_exc=fault_exc, keep_points=keep_points)
    mon.ret_dtype = cfg.get("callback_dtype")
    flow = AnalyticFlow(p["dims"], seed=seed + 1000, xp_name=ns, dtype=get_dtype(ns, cfg.get("dtype")), **p["flow"])
    a = Aspire(log_likelihood=mon.log_likelihood, log_prior=mon.log_prior, dims=p["dims"], parameters=p["parameters"],
               prior_bounds=p["bounds"], periodic_parameters=p["periodic"], flow=flow, xp=xp,
               dtype=get_dtype(ns, cfg.get("dtype")))
    N = cfg["N"]
    S = cfg.get("S", 2)
    kw = dict(cfg["opts"])
    if cfg.get("n_final") is not None:
        kw["n_final_samples"] = cfg["n_final"]
    sink = []
    live = []
    if file_path is not None:
        kw["checkpoint_every"] = cfg["cadence"]
        kw["checkpoint_file_path"] = file_path
    elif cfg.get("cadence") is not None:
        kw["checkpoint_every"] = cfg["cadence"]
        def _cb(st):
            sink.append((st["iteration"], pickle.dumps(st, protocol=pickle.HIGHEST_PROTOCOL)))
            live.append(st)  # the very dictionary handed to the callback (a user may keep it and resume from it)

        kw["checkpoint_callback"] = _cb
    if resume_from is not None:
        kw["resume_from"] = resume_from
    out = Run()
    out.cfg, out.mon, out.aspire, out.sink, out.live = cfg, mon, a, sink, live
    out.exception = None
    out.result = None
    pk = dict(p["pk"]) if p["pk"] else None
    import contextlib

    pool_cm = contextlib.nullcontext()
    if cfg.get("pool"):  # the whole run inside Aspire.enable_pool with a pool that also offers unordered maps
        from env.targets import AdversarialPool

        out.pool = AdversarialPool()
        pool_cm = a.enable_pool(out.pool, close_pool=False, parallelize_prior=cfg["pool"] == "prior")
    try:
        with pool_cm:
            # Driven through init_sampler + sampler.sample: Aspire.sample_posterior consumes
            # checkpoint_every itself unless a checkpoint_path is given (see C12), so the cadence
            # would not reach the sampler.  The sample_posterior route is covered by c11_file / C12.
            extra = {}
            if cfg.get("rng_way") == "constructor":  # the user's own generator, handed to the sampler constructor
                extra["rng"] = np.random.default_rng(seed + 77)
            smp = a.init_sampler("smc" if sampler == "smc" else "emcee_smc", preconditioning=p["preconditioning"],
                                 preconditioning_kwargs=pk, **extra)
            a._sampler = smp
            if sampler == "smc":
                kw["sampler_kwargs"] = {"n_steps": S}
            else:
                if cfg.get("rng_way") != "constructor":
                    smp.rng = np.random.default_rng(seed)
                kw["sampler_kwargs"] = {"nsteps": S, "progress": False}
            if cfg.get("n_final_steps") is not None:
                kw["sampler_kwargs"]["n_final_steps"] = cfg["n_final_steps"]  # consumed by SMCSampler.sample, not by the kernel
            res = smp.sample(N, **kw)
            out.result = {
                "final": snapshot_samples(res),
                "log_evidence": float(tonp(res.log_evidence)),
                "log_evidence_error": float(tonp(res.log_evidence_error)),
                "evidence_dtypes": [str(tonp(res.log_evidence).dtype), str(tonp(res.log_evidence_error).dtype)],
                "evidence_exact": [repr(float(tonp(res.log_evidence))), repr(float(tonp(res.log_evidence_error)))],
            }
    except InjectedFault as e:
        out.exception = ("InjectedFault", str(e))
        smp = a.sampler
    except KeyboardInterrupt as e:
        out.exception = ("KeyboardInterrupt", str(e))
        smp = a.sampler
    except Exception as e:  # anything else escaping from aspire: reported by the checks as a verdict
        from env import exc_site
        from mc.explorer import HarnessError

        if isinstance(e, HarnessError):
            raise
        out.exception = (type(e).__name__, exc_site(e), str(e)[:200])
        smp = a.sampler
    out.sampler = smp
    out.history = snapshot_history(smp.history) if smp is not None else None
    out.n_calls = mon.n_calls
    out.kernel_invocations = _kernel.CONFIG["invocations"]
    out.kw, out.N = kw, N
    return out


def resume_on_same_sampler(F, resume_from):
    """The user catches the fault and calls sample(resume_from=...) again on the very sampler object that was interrupted
    (same process, same arguments).  ``F`` is the faulted Run."""
    import _kernel
    import orng

    cfg = F.cfg
    _kernel.reset(mode="prw" if cfg["sampler"] == "smc" else "det", scale=cfg.get("scale", 0.6), horizon=cfg.get("horizon", 200),
                  int_draws=bool(cfg.get("kernel_int_draws")))
    orng.CONFIG["factory"] = None
    orng.CONFIG["seed"] = cfg["seed"]
    F.mon.fault_at = None
    kw = dict(F.kw)
    kw["sampler_kwargs"] = dict(kw["sampler_kwargs"])
    kw["resume_from"] = resume_from
    smp = F.sampler
    if cfg["sampler"] != "smc" and cfg.get("rng_way") != "constructor":
        smp.rng = np.random.default_rng(cfg["seed"])
    out = Run()
    out.cfg, out.mon, out.aspire, out.sink, out.live = cfg, F.mon, F.aspire, F.sink, F.live
    out.exception, out.result = None, None
    try:
        res = smp.sample(F.N, **kw)
        out.result = {
            "final": snapshot_samples(res),
            "log_evidence": float(tonp(res.log_evidence)),
            "log_evidence_error": float(tonp(res.log_evidence_error)),
            "evidence_dtypes": [str(tonp(res.log_evidence).dtype), str(tonp(res.log_evidence_error).dtype)],
            "evidence_exact": [repr(float(tonp(res.log_evidence))), repr(float(tonp(res.log_evidence_error)))],
        }
    except Exception as e:
        from env import exc_site

        out.exception = (type(e).__name__, exc_site(e), str(e)[:200])
    out.sampler = smp
    out.history = snapshot_history(smp.history) if smp.history is not None else None
    return out


def summary(r):
    return {"result": r.result, "history": r.history}


def payload_equal(b1, b2):
    """Checkpoint payloads are equal if their bytes are, or (torch pickles embed storage identifiers that differ
    between otherwise identical runs) if the unpickled contents are."""
    if b1 == b2:
        return True
    s1, s2 = pickle.loads(b1), pickle.loads(b2)
    if set(s1) != set(s2):
        return False
    for k in s1:
        if k == "samples":
            if diff(snapshot_samples(s1[k]), snapshot_samples(s2[k])):
                return False
        elif k == "history":
            if diff(snapshot_history(s1[k]), snapshot_history(s2[k])):
                return False
        elif k == "rng_state":
            if repr(s1[k]) != repr(s2[k]):
                return False
        elif s1[k] != s2[k]:
            return False
    return True
