"""JAX-traceable user callables and proposal for the BlackJAX sampler (its
kernel calls the user's functions under jit/vmap tracing)."""
import math

import numpy as np

from aspire.flows.base import Flow


class JaxGaussFlow(Flow):
    xp = None

    def __init__(self, dims, mu, sigma, seed=0, device=None, data_transform=None):
        import jax
        import jax.numpy as jnp

        self.xp = jnp
        super().__init__(dims, device=None, data_transform=None)
        self.mu = jnp.asarray(mu, dtype=jnp.float64)
        self.sigma = jnp.asarray(sigma, dtype=jnp.float64)
        self.key = jax.random.key(seed)

    def log_prob(self, x, xp=None):
        import jax.numpy as jnp

        x = jnp.asarray(x, dtype=jnp.float64).reshape(-1, self.dims)
        return (-0.5 * ((x - self.mu) / self.sigma) ** 2 - jnp.log(self.sigma) - 0.5 * math.log(2 * math.pi)).sum(1)

    def sample_and_log_prob(self, n, xp=None):
        import jax

        self.key, k = jax.random.split(self.key)
        x = self.mu + self.sigma * jax.random.normal(k, (n, self.dims), dtype=self.mu.dtype)
        return x, self.log_prob(x)

    def sample(self, n, xp=None):
        return self.sample_and_log_prob(n)[0]


class JaxMonitor:
    """Traceable likelihood / prior.  Concrete calls are recorded like Monitor;
    traced calls (inside jit/vmap) are counted at trace time and only the
    presence/pairing of the attached prior is checked symbolically."""

    def __init__(self, lo, hi, mu, sigma):
        import jax.numpy as jnp

        self.lo, self.hi = jnp.asarray(lo), jnp.asarray(hi)
        self.mu, self.sigma = jnp.asarray(mu), jnp.asarray(sigma)
        self.concrete_like_points = 0
        self.traced_like_calls = 0
        self.concrete_calls = []
        self.violations = []
        self._last_prior = None

    def _prior(self, x):
        import jax.numpy as jnp

        inside = jnp.all((x >= self.lo) & (x <= self.hi), axis=1)
        return jnp.where(inside, -jnp.log(self.hi - self.lo).sum(), -jnp.inf)

    def log_prior(self, samples):
        out = self._prior(samples.x)
        self._last_prior = out
        return out

    def log_likelihood(self, samples):
        import jax
        import jax.numpy as jnp

        x = samples.x
        traced = isinstance(x, jax.core.Tracer)
        lp = getattr(samples, "log_prior", None)
        if lp is None:
            self.violations.append(("prior-missing", "traced" if traced else "concrete"))
        elif traced:
            # same symbolic value as the prior just computed for these points?
            if lp is not self._last_prior:
                self.violations.append(("prior-not-the-one-just-evaluated", "traced"))
            self.traced_like_calls += 1
        else:
            want = np.asarray(self._prior(x))
            got = np.asarray(lp)
            if got.shape != want.shape or not np.all((got == want) | (np.abs(got - want) < 1e-9)):
                self.violations.append(("prior-mismatch", "concrete"))
            self.concrete_like_points += len(x)
            self.concrete_calls.append(np.asarray(x).copy())
        return (-0.5 * ((x - self.mu) / self.sigma) ** 2 - jnp.log(self.sigma) - 0.5 * math.log(2 * math.pi)).sum(1)

    # numpy versions for the coherence oracle
    def like_np(self, x):
        x = np.asarray(x, dtype=np.float64).reshape(len(x), -1)
        mu, s = np.asarray(self.mu), np.asarray(self.sigma)
        return (-0.5 * ((x - mu) / s) ** 2 - np.log(s) - 0.5 * math.log(2 * math.pi)).sum(1)

    def prior_np(self, x):
        x = np.asarray(x, dtype=np.float64).reshape(len(x), -1)
        lo, hi = np.asarray(self.lo), np.asarray(self.hi)
        inside = np.all((x >= lo) & (x <= hi), axis=1)
        return np.where(inside, -np.log(hi - lo).sum(), -np.inf)


def run_blackjax(cfg, resume_from=None):
    """BlackJAXSMC with algorithm='rwmh' through Aspire.sample_posterior."""
    import jax
    import jax.numpy as jnp
    from aspire import Aspire

    from env import resume_harness as rh

    mon = JaxMonitor([-5.0, -4.0], [5.0, 6.0], [1.0, 2.0], [0.7, 0.9])
    flow = JaxGaussFlow(2, [0.5, 1.0], [2.5, 2.2], seed=cfg["seed"])
    pre = cfg.get("precond", "none")
    pk = None
    preconditioning = "none"
    if pre == "logit":
        preconditioning, pk = "default", {"bounded_to_unbounded": True, "bounded_transform": "logit"}
    elif pre == "affine":
        preconditioning, pk = "default", {"affine_transform": True}
    a = Aspire(log_likelihood=mon.log_likelihood, log_prior=mon.log_prior, dims=2, parameters=["a", "b"],
               prior_bounds={"a": [-5.0, 5.0], "b": [-4.0, 6.0]}, flow=flow, xp=jnp)
    out = rh.Run()
    out.exception, out.result, out.mon, out.aspire, out.flow = None, None, mon, a, flow
    sink = []
    payloads = []
    extra = {}
    if cfg.get("cadence") is not None:
        extra["checkpoint_every"] = cfg["cadence"]
    if resume_from is not None:
        extra["resume_from"] = resume_from

    def _cb(st):
        import pickle

        sink.append((st["iteration"], rh.snapshot_samples(st["samples"])))
        payloads.append((st["iteration"], pickle.dumps(st)))

    try:
        res = a.sample_posterior(n_samples=cfg["N"], sampler="blackjax_smc", preconditioning=preconditioning,
                                 preconditioning_kwargs=pk, rng=np.random.default_rng(cfg["seed"]),
                                 rng_key=jax.random.key(cfg["seed"]), n_final_samples=cfg.get("n_final"),
                                 sampler_kwargs={"algorithm": "rwmh", "n_steps": 2, "sigma": 0.3},
                                 checkpoint_callback=_cb, **extra, **cfg["opts"])
        out.result = {"final": rh.snapshot_samples(res), "log_evidence": float(np.asarray(res.log_evidence)),
                      "log_evidence_error": float(np.asarray(res.log_evidence_error))}
    except Exception as e:
        from env import exc_site

        out.exception = (type(e).__name__, exc_site(e), str(e)[:300])
    smp = a.sampler
    out.history = rh.snapshot_history(smp.history) if smp is not None and smp.history is not None else None
    out.sink_pops = sink
    out.sink = payloads
    return out
