"""Harness that runs the real SMC loop (MiniPCNSMC / EmceeSMC) with the
*teleport* kernel stub: after every resampling the explorer decides which
population (from a finite menu of log-weight spreads) the kernel hands back.
Used by C06 (schedule), C07 (as-run), C08 (evidence), C18 (history)."""
import math

import numpy as np

from env import get_xp, tonp
from env.choice_rng import ChoiceRNG
from env.flows import LatticeFlow
from env.targets import Monitor, box_logprior

A_POINTS = [0.0, -3.0, -1e3, -1e7, -1e9, -math.inf]  # the last point has zero likelihood (hard support cut)


def pop_menu(N):
    return {
        "flat": [0] * N,
        "mild": [0, 1] * (N // 2),
        "peaked": [0] + [2] * (N - 1),
        "ext7": [0] + [3] * (N - 1),
        "ext9": [0] + [4] * (N - 1),
        # zero-likelihood particle (not last), only ever offered as an *initial* population: no kernel
        # that leaves its target invariant moves a particle to a zero-density point
        "dead": ([0, 5, 1] + [0] * N)[:N] if N > 2 else [5, 0],
    }


MENU_ORDER = ["flat", "mild", "peaked", "ext7", "ext9"]
INIT_ONLY = ["dead"]


def like_fn(x):
    x = np.asarray(x, dtype=np.float64).reshape(len(x), -1)[:, 0]
    j = np.clip(np.rint(x).astype(int), 0, len(A_POINTS) - 1)
    return np.asarray(A_POINTS)[j]


class HorizonExceeded(Exception):
    pass


def run_execution(ctx, cfg):
    """One execution of the real sampler.  Returns a record dict (always);
    record['exception'] is set if aspire raised."""
    import _kernel
    import orng
    from aspire import Aspire

    N = cfg["N"]
    opts = dict(cfg["opts"])
    menu = pop_menu(N)
    names = [n for n in MENU_ORDER if n in cfg.get("menu", MENU_ORDER)]
    K = len(A_POINTS)
    flow = LatticeFlow(1, xs=np.arange(K, dtype=float).reshape(-1, 1), Q=[1.0 / K] * K,
                       logq=[-math.log(K)] * K, ctx=ctx, xp_name="numpy")
    pops = []  # population name after each kernel invocation

    init = ctx.choose(names + [n for n in INIT_ONLY if cfg.get("init_dead", True)], label="init-pop", key=("init",))
    orig_draw = flow.sample_and_log_prob

    def forced_draw(n, xp=None):
        # the earlier (quiet) call on the same sampler object always starts from the flat population, so that it completes
        idx = (menu["flat" if quiet["on"] else init] * ((n // N) + 1))[:n]
        return flow._out(flow.xs[idx]), flow._out(flow.logq[idx])

    quiet = {"on": False}
    flow.sample_and_log_prob = forced_draw
    state = {"beta_seen": []}

    def teleport(z, logp, inv):
        if quiet["on"]:
            return z  # the earlier call on the same sampler object: no environment deviation
        # state key: (current population, history of betas so far, iteration)
        h = smp.history
        key = (pops[-1] if pops else init, tuple(h.beta), len(h.beta))
        if inv > cfg.get("max_decisions", 4):
            choice = "stay"  # stated bound: the environment only deviates in the first few iterations
        else:
            choice = ctx.choose(["stay"] + names, label=f"teleport{inv}", key=key)
        if choice == "stay":
            pops.append(pops[-1] if pops else init)
            return z
        pops.append(choice)
        n = len(z)
        idx = (menu[choice] * ((n // N) + 1))[:n]
        return flow.xs[idx].astype(float)

    _kernel.reset(mode="teleport", teleport=teleport, horizon=cfg.get("horizon", 64))
    rng = ChoiceRNG(ctx, weighted=True)
    rng.max_enumerated = cfg.get("max_resamplings", 3)
    orng.CONFIG["factory"] = lambda: rng
    mon = Monitor(like_fn, box_logprior([-0.5], [K - 0.5]), "numpy", keep_points=False)
    a = Aspire(log_likelihood=mon.log_likelihood, log_prior=mon.log_prior, dims=1, parameters=["p0"],
               prior_bounds={"p0": [-0.5, K - 0.5]}, flow=flow, xp=get_xp("numpy"))
    sampler = cfg.get("sampler", "smc")
    smp = a.init_sampler(sampler, preconditioning="none")
    a._sampler = smp
    rec = {"cfg": cfg, "init": init, "exception": None, "result": None}
    payloads = []
    kw = dict(opts)
    beta_tol = kw.pop("beta_tolerance", None)
    rate = kw.pop("rate", None)
    if rate is not None:
        kw["target_efficiency_rate"] = rate
    if cfg.get("checkpoint_every") is not None:
        kw["checkpoint_every"] = cfg["checkpoint_every"]
        kw["checkpoint_callback"] = lambda st: payloads.append(
            {"iteration": st["iteration"], "beta": st["meta"].get("beta"), "n_hist_beta": len(st["history"].beta)})
    try:
        if cfg.get("prior_call"):
            # non-initial state: the same sampler object has already completed a run (fixed 2-step schedule,
            # quiet environment); the explored run below must behave like a first run
            quiet["on"] = True
            flow.ctx = None
            pk = dict(cfg["prior_call"])
            flow.sample_and_log_prob = forced_draw
            rng_prior = np.random.default_rng(0)
            if sampler == "smc":
                smp.sample(N, rng=rng_prior, sampler_kwargs={"n_steps": 1}, **pk)
            else:
                smp.rng = rng_prior
                smp.sample(N, sampler_kwargs={"nsteps": 1, "progress": False}, **pk)
            quiet["on"] = False
            flow.ctx = ctx
            _kernel.CONFIG["invocations"] = 0
            mon.n_like_points = 0
            smp.n_likelihood_evaluations = 0
            del payloads[:]
        if sampler == "smc":
            if beta_tol is not None:
                # beta_tolerance is an option of SMCSampler.sample only; mirror MiniPCNSMC.sample's set-up
                from aspire.samplers.smc.minipcn import MiniPCNSMC

                smp.sampler_kwargs = {"n_steps": 1, "target_acceptance_rate": 0.234, "step_fn": "tpcn"}
                smp.backend_str = "numpy"
                smp.rng = rng
                res = super(MiniPCNSMC, smp).sample(N, beta_tolerance=beta_tol, **kw)
            else:
                res = smp.sample(N, sampler_kwargs={"n_steps": 1}, **kw)
        else:
            smp.rng = rng
            kw.pop("min_step", None)
            kw.pop("max_n_steps", None)
            res = smp.sample(N, sampler_kwargs={"nsteps": 1, "progress": False}, **kw)
        rec["result"] = {
            "x": tonp(res.x).tolist(),
            "log_evidence": float(tonp(res.log_evidence)),
            "log_evidence_error": float(tonp(res.log_evidence_error)),
            "n": len(res),
        }
    except _kernel.HorizonExceeded as e:
        rec["exception"] = ("HorizonExceeded", "stub-kernel", str(e))
    except Exception as e:
        import traceback

        tb = traceback.extract_tb(e.__traceback__)
        site = next((f"{t.filename.split('/')[-1]}:{t.name}" for t in reversed(tb) if "/aspire/" in t.filename), "?")
        rec["exception"] = (type(e).__name__, site, str(e)[:200])
    h = smp.history
    rec["kernel_invocations"] = _kernel.CONFIG["invocations"]
    rec["pops"] = pops
    rec["p_records"] = [(n, s, p.tolist()) for n, s, p in rng.p_records]
    rec["payloads"] = payloads
    rec["n_like_points"] = mon.n_like_points
    rec["n_like_reported"] = a.n_likelihood_evaluations
    rec["monitor_violations"] = mon.violations
    if h is not None:
        rec["history"] = {
            "beta": [float(b) for b in h.beta],
            "ess": [float(tonp(v)) for v in h.ess],
            "ess_target": [float(tonp(v)) for v in h.ess_target],
            "eff_target": [float(v) for v in h.eff_target],
            "log_norm_ratio": [float(tonp(v)) for v in h.log_norm_ratio],
            "log_norm_ratio_var": [float(tonp(v)) for v in h.log_norm_ratio_var],
            "mcmc_acceptance": [float(v) for v in h.mcmc_acceptance],
            "sample_history": [
                {"beta": None if s.beta is None else float(s.beta), "x": tonp(s.x).tolist(),
                 "L": tonp(s.log_likelihood).tolist(), "P": tonp(s.log_prior).tolist(), "Q": tonp(s.log_q).tolist()}
                for s in h.sample_history
            ],
        }
    else:
        rec["history"] = None
    return rec
