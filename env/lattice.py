"""Finite (lattice) model instances on which SMC / importance sampling satisfy
an exact identity (DESIGN.md C01)."""
import math

import mpmath as mp
import numpy as np

mp.mp.dps = 50

from env import get_xp
from env.flows import LatticeFlow
from env.targets import Monitor, box_logprior, gauss_loglike, vonmises_loglike


def model_1d(target, precond, K, h=None):
    """Return dict(xs, zs, J, like, prior, bounds, periodic, precond_kwargs,
    preconditioning) for a 1-D lattice model."""
    m = {"dims": 1, "parameters": ["p0"]}
    if target in ("box", "hug", "cut", "leak"):
        lo, hi = 0.0, 4.0
        mu = 4.0 if target == "hug" else 1.3
        m["like"] = gauss_loglike([mu], [0.8])

        m["prior"] = box_logprior([lo], [hi])
        m["bounds"] = {"p0": [lo, hi]}
        m["periodic"] = None
        if precond in ("none", "default"):
            h = h or 0.7
            x0 = hi - 0.35 - (K - 1) * h if target == "hug" else (hi - 0.2 - (K - 2) * h if target == "leak" else 0.6)
            zs = [x0 + j * h for j in range(K)]
            xs = list(zs)
            J = [1.0] * K
            m["preconditioning"] = precond
            m["precond_kwargs"] = None
        elif precond in ("logit", "probit"):
            h = h or 0.8
            z0 = -0.9 if target == "box" else 0.7
            zs = [z0 + j * h for j in range(K)]
            xs, J = [], []
            for z in zs:
                zz = mp.mpf(z)
                if precond == "logit":
                    s = 1 / (1 + mp.exp(-zz))
                    dj = s * (1 - s)
                else:
                    s = mp.ncdf(zz)
                    dj = mp.npdf(zz)
                xs.append(float(lo + (hi - lo) * s))
                J.append(float((hi - lo) * dj))
            m["preconditioning"] = "default"
            m["precond_kwargs"] = {"bounded_to_unbounded": True, "bounded_transform": precond}
        else:
            raise ValueError(precond)
    elif target == "periodic":
        M = 4 if K <= 4 else K
        h = 2 * math.pi / M
        m["like"] = vonmises_loglike(1.5, 1.0)
        m["prior"] = box_logprior([0.0], [2 * math.pi])
        m["bounds"] = {"p0": [0.0, 2 * math.pi]}
        m["periodic"] = ["p0"]
        js = list(range(M))[:K] if K < M else list(range(M))
        if K < M:
            # support that straddles the seam: {M-1, 0, 1, ...}
            js = [(j - 1) % M for j in range(K)]
        zs = [j * h for j in js]
        xs = list(zs)
        J = [1.0] * len(zs)
        m["preconditioning"] = "default"
        m["precond_kwargs"] = None
    else:
        raise ValueError(target)
    if target == "cut":
        # likelihood with a hard support cut between the last two lattice points: the last point is dead
        thr = 0.5 * (xs[-2] + xs[-1])
        base = m["like"]

        def cut_like(x, base=base, thr=thr):
            x = np.asarray(x, dtype=np.float64).reshape(len(x), -1)
            return np.where(x[:, 0] > thr, -np.inf, base(x))

        m["like"] = cut_like
    m.update(xs=xs, zs=zs, J=J, h=h)
    return m


def proposal_masses(K, skew):
    if skew == "flat":
        q = [1.0] * K
    else:
        q = [1.0 + 0.6 * j for j in range(K)]
    s = sum(q)
    return [v / s for v in q]


def exact_rhs(m, fs):
    """h * sum_j L pi J f(x_j) in extended precision."""
    xs = np.asarray(m["xs"]).reshape(-1, 1)
    L = m["like"](xs)
    P = m["prior"](xs)
    out = []
    for f in fs:
        tot = mp.mpf(0)
        for j in range(len(xs)):
            if not np.isfinite(L[j] + P[j]):
                continue
            tot += mp.exp(mp.mpf(float(L[j])) + mp.mpf(float(P[j]))) * mp.mpf(m["J"][j]) * f(mp.mpf(float(xs[j, 0])))
        out.append(tot * mp.mpf(m["h"]))
    return out


def make_flow(m, Q, ctx, xp_name, dtype=None):
    logq = [math.log(Q[j]) - math.log(m["J"][j]) - math.log(m["h"]) for j in range(len(Q))]
    return LatticeFlow(m["dims"], xs=np.asarray(m["xs"]).reshape(-1, 1), Q=Q, logq=logq, ctx=ctx,
                       xp_name=xp_name, dtype=dtype)


def model_2d(target, precond, K=2):
    """Product lattice of two 1-D models (K points per dimension)."""
    a = model_1d(target, precond, K)
    b = model_1d("box" if target != "periodic" else "periodic", precond if target != "periodic" else "default", K)
    la, lb = a["like"], b["like"]
    pa, pb = a["prior"], b["prior"]

    def like(x):
        x = np.asarray(x, dtype=np.float64).reshape(len(x), -1)
        return la(x[:, :1]) + 0.7 * lb(x[:, 1:2])

    def prior(x):
        x = np.asarray(x, dtype=np.float64).reshape(len(x), -1)
        return pa(x[:, :1]) + pb(x[:, 1:2])

    xs = [[xa, xb] for xa in a["xs"] for xb in b["xs"]]
    J = [ja * jb for ja in a["J"] for jb in b["J"]]
    m = {"dims": 2, "parameters": ["p0", "p1"], "like": like, "prior": prior,
         "bounds": {"p0": a["bounds"]["p0"], "p1": b["bounds"]["p0"]},
         "periodic": (["p0"] if a["periodic"] else []) + (["p1"] if b["periodic"] else []) or None,
         "preconditioning": a["preconditioning"], "precond_kwargs": a["precond_kwargs"],
         "xs": xs, "J": J, "h": a["h"] * b["h"], "hvec": [a["h"], b["h"]]}
    return m


def exact_rhs_nd(m, fs):
    """sum_j L pi J f(x_j) * cell volume; f receives the first coordinate."""
    xs = np.asarray(m["xs"], dtype=np.float64).reshape(len(m["xs"]), -1)
    L = m["like"](xs)
    P = m["prior"](xs)
    out = []
    for f in fs:
        tot = mp.mpf(0)
        for j in range(len(xs)):
            if not np.isfinite(L[j] + P[j]):
                continue
            tot += mp.exp(mp.mpf(float(L[j])) + mp.mpf(float(P[j]))) * mp.mpf(m["J"][j]) * f(mp.mpf(float(xs[j, 0])))
        out.append(tot * mp.mpf(m["h"]))
    return out


def make_flow_nd(m, Q, ctx, xp_name, dtype=None):
    logq = [math.log(Q[j]) - math.log(m["J"][j]) - math.log(m["h"]) for j in range(len(Q))]
    return LatticeFlow(m["dims"], xs=np.asarray(m["xs"], dtype=np.float64).reshape(len(Q), -1), Q=Q, logq=logq, ctx=ctx,
                       xp_name=xp_name, dtype=dtype)
