"""User-side callables (likelihood / prior) and the Monitor that wraps them."""
import math

import numpy as np

from env import get_xp, tonp


class InjectedFault(Exception):
    pass


class InjectedInterrupt(KeyboardInterrupt):
    pass


def gauss_loglike(mu, sigma):
    mu = np.asarray(mu, dtype=np.float64)
    sigma = np.asarray(sigma, dtype=np.float64)

    def f(x):
        x = np.asarray(x, dtype=np.float64).reshape(len(x), -1)
        return (-0.5 * ((x - mu) / sigma) ** 2 - np.log(sigma) - 0.5 * math.log(2 * math.pi)).sum(1)

    return f


def vonmises_loglike(kappa, mu):
    def f(x):
        x = np.asarray(x, dtype=np.float64).reshape(len(x), -1)
        return (kappa * np.cos(x - mu)).sum(1)

    return f


def box_logprior(lo, hi):
    lo = np.asarray(lo, dtype=np.float64)
    hi = np.asarray(hi, dtype=np.float64)

    def f(x):
        x = np.asarray(x, dtype=np.float64).reshape(len(x), -1)
        inside = np.all((x >= lo) & (x <= hi), axis=1)
        return np.where(inside, -np.log(hi - lo).sum(), -np.inf)

    return f


class Monitor:
    """Wraps numpy-level likelihood/prior into aspire-facing callables of a
    given namespace, records every call and can raise at the k-th call."""

    def __init__(self, like, prior, xp_name="numpy", fault_at=None, fault_exc=InjectedFault,
                 check_prior_attached=True, keep_points=True):
        self.like = like
        self.prior = prior
        self.xp_name = xp_name
        self.xp = get_xp(xp_name)
        self.calls = []  # dicts
        self.n_calls = 0  # likelihood + prior calls, in order
        self.n_like_points = 0
        self.fault_at = fault_at  # index into the joint call sequence
        self.fault_exc = fault_exc
        self.keep_points = keep_points
        self.violations = []

    ret_dtype = None  # optional: the user's callables always return this width (e.g. float64 from a NumPy likelihood)

    def _ret(self, val, like_arr):
        dt = getattr(like_arr, "dtype", None)
        if self.ret_dtype is not None:
            from env import get_dtype

            dt = get_dtype(self.xp_name, self.ret_dtype)
        try:
            return self.xp.asarray(val, dtype=dt)
        except TypeError:
            return self.xp.asarray(val)

    def _tick(self, kind):
        k = self.n_calls
        self.n_calls += 1
        if self.fault_at is not None and k == self.fault_at:
            raise self.fault_exc(f"injected fault at user-callable call #{k} ({kind})")
        return k

    def _mapped(self, fn, x, map_fn):
        """Row-by-row evaluation through the map function aspire handed over (pool runs); positional, like the
        pattern in docs/multiprocessing.rst."""
        self.map_fn_calls += 1
        rows = [np.asarray(r, dtype=np.float64).reshape(1, -1) for r in x]
        vals = list(map_fn(lambda r: float(fn(r)[0]), rows))
        return np.asarray(vals, dtype=np.float64)

    map_fn_calls = 0

    def log_prior(self, samples, map_fn=None):
        k = self._tick("prior")
        x = tonp(samples.x)
        val = self.prior(x) if map_fn is None else self._mapped(self.prior, x, map_fn)
        self.calls.append({"k": k, "kind": "prior", "n": len(x), "x": x.copy() if self.keep_points else None})
        return self._ret(val, samples.x)

    n_like_asked = 0  # points the likelihood was asked to evaluate, including a call that then fails

    def log_likelihood(self, samples, map_fn=None):
        self.n_like_asked += len(samples.x)
        k = self._tick("like")
        x = tonp(samples.x)
        rec = {"k": k, "kind": "like", "n": len(x), "x": x.copy() if self.keep_points else None}
        lp = getattr(samples, "log_prior", None)
        if lp is None:
            rec["prior_attached"] = False
            self.violations.append(("prior-missing", k))
        else:
            lpn = tonp(lp).astype(np.float64).reshape(-1)
            want = self.prior(x)
            rec["prior_attached"] = True
            tol = 1e-5 if tonp(samples.x).dtype == np.float32 else 1e-12
            same = lpn.shape == want.shape and np.all(
                (lpn == want) | (np.abs(lpn - want) <= tol * (1 + np.abs(want)))
            )
            if not same:
                self.violations.append(("prior-mismatch", k))
                rec["prior_mismatch"] = True
        self.n_like_points += len(x)
        self.calls.append(rec)
        return self._ret(self.like(x) if map_fn is None else self._mapped(self.like, x, map_fn), samples.x)


class AdversarialPool:
    """A pool whose order-preserving calls (map, imap, starmap) preserve the order and whose unordered call returns
    the results in reverse order of submission (a legal behaviour of an unordered map)."""

    def __init__(self):
        self.closed = self.joined = self.terminated = 0
        self.used = []

    def map(self, fn, it, chunksize=None):
        self.used.append("map")
        return [fn(v) for v in it]

    def imap(self, fn, it, chunksize=1):
        self.used.append("imap")
        return iter([fn(v) for v in it])

    def imap_unordered(self, fn, it, chunksize=1):
        self.used.append("imap_unordered")
        return iter([fn(v) for v in it][::-1])

    def starmap(self, fn, it, chunksize=None):
        self.used.append("starmap")
        return [fn(*v) for v in it]

    def map_async(self, fn, it, chunksize=None, callback=None, error_callback=None):
        self.used.append("map_async")
        res = [fn(v) for v in it]

        class R:
            def get(self_inner, timeout=None):
                return res

            def wait(self_inner, timeout=None):
                return None

            def ready(self_inner):
                return True

            def successful(self_inner):
                return True

        return R()

    def close(self):
        self.closed += 1

    def join(self):
        self.joined += 1

    def terminate(self):
        self.terminated += 1
