"""A numpy.random.Generator facade whose answers are explorer choices."""
import numpy as np


class ChoiceRNG:
    """Implements the generator surface aspire and the stub kernels use.

    ``choice(n, size, replace=True, p)`` enumerates every index tuple with
    non-zero probability (one weighted choice point per drawn index) and
    records the probability vector it was handed."""

    def __init__(self, ctx, weighted=True):
        self.ctx = ctx
        self.weighted = weighted
        self.p_records = []  # (n, size, p-vector as float64 numpy)
        self.replace_flags = []  # the replace= argument of every choice() call
        self.uniform_menu = None  # callable(size) -> list of candidate arrays
        self.max_enumerated = None  # after this many choice() calls the most probable index is returned

    def choice(self, a, size=None, replace=True, p=None, **kw):
        n = int(a) if np.ndim(a) == 0 else len(a)
        if p is None:
            pv = np.full(n, 1.0 / n)
        else:
            pv = np.asarray(p, dtype=np.float64)
        self.p_records.append((n, size, pv.copy()))
        self.replace_flags.append(bool(replace))
        k = 1 if size is None else int(size)
        idx = []
        for j in range(k):
            w = pv if self.weighted else None
            if w is not None and (not np.all(np.isfinite(w)) or w.sum() <= 0):
                raise ValueError("probabilities contain NaN or do not sum to a positive number")
            # default option 0 = the most probable index (ties: lowest index)
            order = sorted(range(n), key=lambda i: (-pv[i], i))
            if self.max_enumerated is not None and len(self.p_records) > self.max_enumerated:
                idx.append(order[0])
                continue
            pick = self.ctx.choose(order, weights=[pv[i] for i in order] if w is not None else None,
                                   label=f"resample{len(self.p_records)}[{j}]")
            idx.append(pick)
        if size is None:
            return idx[0]
        return np.asarray(idx, dtype=np.int64)

    def uniform(self, low=0.0, high=1.0, size=None):
        if self.uniform_menu is None:
            raise NotImplementedError("ChoiceRNG.uniform needs a menu")
        cands = self.uniform_menu(size)
        return self.ctx.choose(cands, label="uniform")

    def random(self, size=None):
        return self.uniform(size=size)
