"""Environment closure for aspire (DESIGN.md section 3.4).

``setup()`` must be called before aspire is imported: it pins thread pools,
puts /repo/src and the stub kernel packages on sys.path, enables jax x64 (as
the repository's tests/conftest.py does) and silences progress output."""
from __future__ import annotations

import logging
import os
import sys

VERIF = os.path.dirname(os.path.dirname(os.path.abspath(__file__)))
REPO = os.environ.get("ASPIRE_REPO", "/repo")
_done = False
_cov = None


def cov_save():
    if _cov is not None:
        _cov.stop()
        _cov.save()
        _cov.start()


def setup(jax_x64=True):
    global _done
    if _done:
        return
    _done = True
    for v in ("OMP_NUM_THREADS", "MKL_NUM_THREADS", "OPENBLAS_NUM_THREADS", "NUMEXPR_NUM_THREADS"):
        os.environ[v] = "1"
    os.environ.setdefault("XLA_FLAGS", "--xla_cpu_multi_thread_eigen=false intra_op_parallelism_threads=1")
    os.environ["SCIPY_ARRAY_API"] = "1"
    os.environ["TQDM_DISABLE"] = "1"
    os.environ["JAX_PLATFORMS"] = "cpu"
    os.environ["ASPIRE_VERIF"] = "1"
    src = os.path.join(REPO, "src")
    if os.environ.get("VERIF_COV"):  # development aid: line/branch coverage of aspire under the checks (never part of a verdict)
        global _cov
        import atexit

        import coverage

        os.makedirs(os.environ["VERIF_COV"], exist_ok=True)
        _cov = coverage.Coverage(data_file=os.path.join(os.environ["VERIF_COV"], ".coverage"), data_suffix=True, branch=True,
                                 include=[os.path.join(os.path.realpath(src), "aspire", "*")])
        _cov.start()
        atexit.register(cov_save)
    stubs = os.path.join(VERIF, "envstubs")
    for p in (stubs, src, VERIF):
        if p in sys.path:
            sys.path.remove(p)
        sys.path.insert(0, p)
    logging.getLogger("aspire").setLevel(logging.ERROR)
    logging.getLogger("jax").setLevel(logging.ERROR)
    import warnings

    warnings.filterwarnings("ignore")
    if jax_x64:
        try:
            import jax

            jax.config.update("jax_enable_x64", True)
        except ImportError:
            pass
    try:
        import torch

        torch.set_num_threads(1)
    except ImportError:
        pass
    import aspire  # noqa: F401

    real = os.path.realpath(os.path.dirname(aspire.__file__))
    want = os.path.realpath(os.path.join(src, "aspire"))
    if real != want:
        raise RuntimeError(f"aspire imported from {real}, expected {want}")
    logging.getLogger("aspire").setLevel(logging.ERROR)
    if os.environ.get("VERIF_AUDIT"):  # development aid: records which option values the checks exercise (tools/option_audit.py)
        from tools import option_audit

        option_audit.install()


def get_xp(name):
    if name == "numpy":
        import array_api_compat.numpy as xp
    elif name == "torch":
        import array_api_compat.torch as xp
    elif name == "jax":
        import jax.numpy as xp
    else:
        raise ValueError(name)
    return xp


def get_dtype(xp_name, dt):
    if dt is None:
        return None
    if xp_name == "torch":
        import torch

        return getattr(torch, dt)
    xp = get_xp(xp_name)
    return xp.dtype(dt)


def tonp(a):
    import numpy as np

    if a is None:
        return None
    if hasattr(a, "detach"):
        a = a.detach().cpu().numpy()
    return np.asarray(a)


def exc_site(e):
    """'file.py:function' of the innermost aspire frame of an exception (or '?')."""
    import traceback

    tb = traceback.extract_tb(e.__traceback__)
    return next((f"{t.filename.split('/')[-1]}:{t.name}" for t in reversed(tb) if "/aspire/" in t.filename), "?")
