"""Proposal models handed to aspire through its public ``flow=`` argument."""
import math

import numpy as np

from aspire.flows.base import Flow
from env import get_xp, tonp


class LatticeFlow(Flow):
    """Finite-support proposal.  Points ``xs`` (K, d) with masses ``Q`` and
    reported densities ``logq`` (K,).  Draws go through the explorer; the
    density is -inf off the support (nearest-point match within ``tol``)."""

    xp = None

    def __init__(self, dims, xs=None, Q=None, logq=None, ctx=None, xp_name="numpy",
                 dtype=None, tol=1e-6, device=None, data_transform=None):
        self.xp_name = xp_name
        self.xp = get_xp(xp_name)
        super().__init__(dims, device=None, data_transform=None)
        self.xs = np.asarray(xs, dtype=np.float64).reshape(len(Q), dims)
        self.Q = np.asarray(Q, dtype=np.float64)
        self.logq = np.asarray(logq, dtype=np.float64)
        self.ctx = ctx
        self.dtype = dtype
        self.tol = tol
        self.draw_log = []
        self.menu = None  # optional callable(draw_round) -> allowed indices

    def _out(self, a):
        kw = {}
        if self.dtype is not None:
            kw["dtype"] = self.dtype
        return self.xp.asarray(a, **kw)

    def sample_and_log_prob(self, n_samples, xp=None):
        K = len(self.Q)
        allowed = list(range(K)) if self.menu is None else list(self.menu(len(self.draw_log)))
        order = sorted(allowed, key=lambda i: (-self.Q[i], i))
        w = np.array([self.Q[i] for i in order])
        w = w / w.sum()
        idx = [self.ctx.choose(order, weights=list(w), label=f"draw{len(self.draw_log)}[{j}]")
               for j in range(n_samples)]
        self.draw_log.append(idx)
        return self._out(self.xs[idx]), self._out(self.logq[idx])

    def sample(self, n_samples, xp=None):
        return self.sample_and_log_prob(n_samples)[0]

    def lookup(self, x):
        x = np.asarray(tonp(x), dtype=np.float64).reshape(-1, self.dims)
        d = np.abs(x[:, None, :] - self.xs[None, :, :]).max(-1)
        j = d.argmin(1)
        ok = d[np.arange(len(x)), j] <= self.tol
        return j, ok

    def log_prob(self, x, xp=None):
        j, ok = self.lookup(x)
        out = np.where(ok, self.logq[j], -np.inf)
        return self._out(out)

    def fit(self, samples, **kw):
        from aspire.history import FlowHistory

        return FlowHistory()


class AnalyticFlow(Flow):
    """Continuous proposal with a closed-form density: independent Gaussians
    N(mu, sigma^2) per dimension, optionally truncated to [lo, hi] by
    rejection-free inverse-CDF sampling (uniform if sigma is None).  Drawn with
    its own seeded generator; picklable; usable in any namespace."""

    xp = None

    def __init__(self, dims, mu=0.0, sigma=1.0, lo=None, hi=None, seed=0,
                 xp_name="numpy", dtype=None, device=None, data_transform=None):
        self.xp_name = xp_name
        self.xp = get_xp(xp_name)
        super().__init__(dims, device=None, data_transform=None)
        self.mu = np.broadcast_to(np.asarray(mu, dtype=np.float64), (dims,)).copy()
        self.sigma = None if sigma is None else np.broadcast_to(np.asarray(sigma, dtype=np.float64), (dims,)).copy()
        self.lo = None if lo is None else np.broadcast_to(np.asarray(lo, dtype=np.float64), (dims,)).copy()
        self.hi = None if hi is None else np.broadcast_to(np.asarray(hi, dtype=np.float64), (dims,)).copy()
        self.seed = seed
        self.gen = np.random.default_rng(seed)
        self.dtype = dtype
        self.n_draw_calls = 0

    def _out(self, a):
        kw = {}
        if self.dtype is not None:
            kw["dtype"] = self.dtype
        return self.xp.asarray(a, **kw)

    def _logpdf(self, x):
        from scipy.stats import norm

        x = np.asarray(x, dtype=np.float64).reshape(-1, self.dims)
        if self.sigma is None:
            inside = np.all((x >= self.lo) & (x <= self.hi), axis=1)
            val = -np.log(self.hi - self.lo).sum()
            return np.where(inside, val, -np.inf)
        lp = norm.logpdf(x, self.mu, self.sigma)
        if self.lo is not None:
            Zn = norm.cdf(self.hi, self.mu, self.sigma) - norm.cdf(self.lo, self.mu, self.sigma)
            lp = lp - np.log(Zn)
            inside = np.all((x >= self.lo) & (x <= self.hi), axis=1)
            return np.where(inside, lp.sum(1), -np.inf)
        return lp.sum(1)

    def sample_and_log_prob(self, n_samples, xp=None):
        from scipy.stats import norm

        self.n_draw_calls += 1
        u = self.gen.uniform(size=(n_samples, self.dims))
        if self.sigma is None:
            x = self.lo + u * (self.hi - self.lo)
        elif self.lo is not None:
            a = norm.cdf(self.lo, self.mu, self.sigma)
            b = norm.cdf(self.hi, self.mu, self.sigma)
            x = norm.ppf(a + u * (b - a), self.mu, self.sigma)
            x = np.clip(x, self.lo, self.hi)
        else:
            x = norm.ppf(u, self.mu, self.sigma)
        # round-trip through the output dtype so that log q belongs to the
        # coordinates actually handed out
        xo = self._out(x)
        lq = self._out(self._logpdf(tonp(xo)))
        self.last_draw = (tonp(xo).astype(np.float64).copy(), tonp(lq).astype(np.float64).copy())  # for oracles that need the batch itself
        return xo, lq

    def sample(self, n_samples, xp=None):
        return self.sample_and_log_prob(n_samples)[0]

    def log_prob(self, x, xp=None):
        return self._out(self._logpdf(tonp(x)))

    def fit(self, samples, **kw):
        from aspire.history import FlowHistory

        return FlowHistory()

    def save(self, h5_file, path="flow"):
        grp = h5_file.create_group(path)
        grp.attrs["class"] = "AnalyticFlow"
        grp.create_dataset("mu", data=self.mu)
        if self.sigma is not None:
            grp.create_dataset("sigma", data=self.sigma)
        grp.attrs["seed"] = self.seed
        grp.attrs["stamp"] = getattr(self, "stamp", "")
