"""Plain unit tests that replay stored counterexamples without the explorer.

``replays_kept/original`` holds one artefact per violation signature that the
checks reported on the pinned upstream commit (61f914e).  On the current tree
every artefact whose defect was repaired must replay clean, and every artefact
of a recorded known finding must still reproduce.

Run:  /venv/bin/python -m pytest /verif/tests -q -p no:cacheprovider
"""
import glob
import importlib
import json
import os
import sys

import pytest

VERIF = os.path.dirname(os.path.dirname(os.path.abspath(__file__)))
sys.path.insert(0, VERIF)
import env  # noqa: E402

env.setup()

KNOWN = {(f["property"], f["signature"]) for f in json.load(open(os.path.join(VERIF, "known_findings.json")))["findings"]
         if f.get("status") == "known"}
FILES = sorted(glob.glob(os.path.join(VERIF, "replays_kept", "original", "*.json")))


@pytest.mark.parametrize("path", FILES, ids=[os.path.basename(p) for p in FILES])
def test_replay(path):
    rec = json.load(open(path))
    mod = importlib.import_module(f"checks.{rec['property'].lower()}")
    rep = mod.replay(rec["case"])
    sigs = {v["signature"] for v in rep.violations}
    if (rec["property"], rec["signature"]) in KNOWN:
        assert rec["signature"] in sigs, f"known finding no longer reproduces: {rec['signature']}"
    else:
        unexpected = {s for s in sigs if (rec["property"], s) not in KNOWN}
        assert not unexpected, f"repaired defect is back: {sorted(unexpected)}"
