# Table consumed by tools_manifest.py (python3 tools_manifest.py regenerates MANIFEST.json)
NOTES = ("All checks run the real aspire code from /repo/src in a fresh interpreter; stub kernel packages under "
         "/verif/envstubs stand in for minipcn/orng/emcee/blackjax, which are not installed offline. See DESIGN.md.")
NOT_APPLICABLE = {}

check("C09", "exploration", "exhaustive enumeration of every resampling index tuple over a finite population alphabet (stateless explorer on real code)",
      "Every index tuple the generator can return is executed against the real SMCSamples.resample for every population/temperature/size/namespace/dtype of a finite alphabet; the probability vector handed to the generator and the row identity of every copied field are compared with an mpmath reference.",
      "Finite alphabet of log-weights; generator modelled by a facade that records the p vector; float tolerance is rounding-aware.",
      "DESIGN.md 4/C09")
