# Table consumed by tools_manifest.py (python3 tools_manifest.py regenerates MANIFEST.json)
NOTES = ("All checks run the real aspire code from /repo/src in a fresh interpreter; stub kernel packages under "
         "/verif/envstubs stand in for minipcn/orng/emcee/blackjax, which are not installed offline. See DESIGN.md.")
NOT_APPLICABLE = {}

check("C09", "exploration", "exhaustive enumeration of every resampling index tuple over a finite population alphabet (stateless explorer on real code)",
      "Every index tuple the generator can return is executed against the real SMCSamples.resample for every population/temperature/size/namespace/dtype of a finite alphabet; the probability vector handed to the generator and the row identity of every copied field are compared with an mpmath reference.",
      "Finite alphabet of log-weights; generator modelled by a facade that records the p vector; float tolerance is rounding-aware.",
      "DESIGN.md 4/C09")

check("C01", "exploration", "probability-weighted exhaustive exploration of all random outcomes of the real sampler on finite lattice instances (exact expectation, stateless explorer)",
      "For lattice proposals/targets the unnormalised Feynman-Kac identity E[Zhat*mean f(x_final)] = h*sum L*pi*J*f holds exactly for every N; the explorer enumerates every proposal draw, resampling index tuple and kernel proposal/accept outcome of the real Aspire.sample_posterior (importance, smc, emcee_smc x none/default/logit/probit/periodic preconditioning x 1-3 fixed temperature steps x n_final_samples x namespaces), sums path probabilities (must be 1) and compares the exact expectation with the closed form for f = 1, x, x^2.",
      "Stub lattice Metropolis kernel stands in for minipcn/emcee; adaptive schedules, affine whitening and flow preconditioning are population-dependent (finite-N identity is not a theorem) and are covered by the one-step checks C05/C07/C08/C09/C10; N=2, K<=3, T<=3.",
      "DESIGN.md 4/C01")

check("C06", "exploration", "deviation-bounded exhaustive exploration of the real SMC loop under a controlled environment (population menu + resampling outcomes) over a schedule-option grid",
      "The real MiniPCNSMC/EmceeSMC.sample loop runs to completion for every environment behaviour with <=2 (quick) / <=3 (thorough) deviations (which population the kernel returns after each iteration, which indices resampling draws) for every schedule-option configuration (sweeps + pairwise cover; full product in thorough; fixed n up to 64/300); every execution is checked for strictly increasing temperatures in (0,1], exact termination at 1 or at max_n_steps, exactly n iterations for fixed n, min_step honoured, no exception, and a 64-invocation horizon (spinning).",
      "Teleport kernel stub; environment deviates only in the first 4 iterations and 3 resamplings; population menu of 5 log-weight spreads (0..1e9); N in {2,4}.",
      "DESIGN.md 4/C06")
check("C08", "exploration", "complete-tree exploration (all resampling tuples x environment populations) of the real SMC loop with extended-precision recomputation and paired differential runs",
      "For N=2 the complete choice tree (N=3: <=2/3 deviations) of the real loop is executed; every per-step log ratio and delta-method variance is recomputed with mpmath from the population stored before that step and the temperatures actually used, the returned log-evidence must be their sum and the error the root of the summed variances; each execution is re-run with identical choices plus n_final_samples / a checkpoint callback (cadence 1, 2) and must return bit-identical evidence.",
      "Teleport kernel stub; log-weight spreads {0,3,1e3}; <=3 iterations enumerated.",
      "DESIGN.md 4/C08")

check("C07", "exploration", "small-scope exhaustive enumeration of populations x temperatures x targets x tolerances against the real temperature search, with a monotonicity-lemma oracle in extended precision",
      "Every multiset population over a 7-value log-weight alphabet (N=2,3,4,6) x 4 current temperatures x 6 targets (scalar and ramp) x 3 tolerances x 2 floors is passed to the real determine_beta; since ESS is non-increasing in the step (proved in DESIGN.md), 'largest temperature meeting the target within tolerance' is decided exactly by ESS(beta_new)/N >= target and ESS(beta_new+tol)/N < target, recomputed with mpmath. The same post-condition is evaluated on every adaptive step of real runs explored with <=2 environment deviations.",
      "Finite alphabets; epsilon 1e-9 on efficiencies; target in force = ramp at the starting temperature.",
      "DESIGN.md 4/C07")

check("C11", "fault_enumeration", "exhaustive crash-point enumeration (exception at every user-callable call index) with resume through every route and bit-for-bit comparison against the uninterrupted run",
      "For every configuration of a grid (sampler x schedule x cadence x n_final_samples x preconditioning x seed) a fault is injected at every call index of the user's likelihood/prior of the real run; the run is resumed from the last checkpoint written before the fault as bytes, as a dict, from the file path and through Aspire.resume_from_file (real zuko flow) and must reproduce temperatures, every stored population, evidence, every history series and the final samples of the uninterrupted run exactly. The faulted run must agree with the reference up to the fault (determinism check). Thorough adds a second fault at every call of every resumed run.",
      "Interruption = Python exception at a user-callable boundary; stub kernels (random-walk Metropolis driven only by the sampler's generator / deterministic sweep); N=8 particles.",
      "DESIGN.md 4/C11")
check("C18", "exploration", "invariant checking on every execution of a deviation-bounded exploration of the SMC loop and on every resumed run of a crash/resume enumeration",
      "The history produced by the real sampler is checked in every explored execution (<=2 environment deviations x schedule-option grid) and in every run resumed from every checkpoint: one entry per iteration in every populated series, sample_history = initial population followed by one population per iteration with matching temperatures, and recorded temperature / ESS / ESS at beta=1 / incremental log-ratio equal to their definitions recomputed with mpmath from the neighbouring stored populations.",
      "Stub kernels; N<=8.",
      "DESIGN.md 4/C18")

check("C12", "fault_enumeration", "exhaustive crash-point enumeration on runs checkpointing into a real HDF5 file, with byte-for-byte comparison of the file against the last payload",
      "Through Aspire.sample_posterior(checkpoint_path=file) a fault is injected at every call index of the user's likelihood/prior for every cadence (1,2,3,5) x run length (1-6 iterations, fixed and adaptive, with n_final_samples) x sampler; after each fault the file must contain the configuration, the proposal and exactly the bytes of the most recent payload, written at exactly the iterations the cadence dictates plus one forced final write; payload-size sequences (every permutation of three runs with 4/8/16 particles into one file, all 27 size sequences through dump_state) catch truncated and stale-suffixed blobs; the file left by each fault is fed to Aspire.resume_from_file (real zuko flow), which must be primed with that payload.",
      "Interruption = Python exception at a user-callable boundary; checkpoint writes observed by wrapping Sampler.default_checkpoint_callback from the harness; HDF5 internal atomicity not modelled.",
      "DESIGN.md 4/C12")

check("C02", "exploration", "small-scope exhaustive enumeration of log-density vectors (all multisets, permutations, shifts, namespaces, dtypes) against extended-precision definitions; all uniform-draw combinations for rejection sampling",
      "Every multiset of N in {2,3,4} log-weights over a 10-value alphabet (ties, -inf, magnitudes +-1e5 and 700/-745 outside exp()'s range), every distinct permutation, three ways of splitting the weight over likelihood/prior/proposal, constant shifts, three namespaces and two float widths is passed to the real Samples class; log_w, log_evidence, ESS (range, efficiency*N), scaled weights, the relative evidence error (finite and accurate) and the utils helpers are compared with mpmath definitions with rounding-aware tolerances; permutation invariance and the shift law are checked pairwise; rejection_sample is run for every combination of per-row uniforms straddling the acceptance boundary.",
      "Finite alphabet; jax/torch reduced in quick; linear-space evidence/weights may overflow legitimately.",
      "DESIGN.md 4/C02", engine="explorer")

check("C04", "exploration", "small-scope exhaustive enumeration of transform configurations x bounds x shapes x positions x namespaces x dtypes against analytic (mpmath) maps/log-Jacobians and finite-difference Jacobians of the library's own map",
      "Every transform class and every on/off combination inside CompositeTransform/FlowTransform (periodic subset x bounded_to_unbounded x logit|probit x affine), plus FlowPreconditioningTransform with a zuko flow, is run on a Latin arrangement of interior positions down to the clipping margin for bounds over 9 orders of magnitude, d=1..3, batch 1/3/7, three namespaces and two float widths: round trip, forward log-Jacobian vs the analytic value and vs slogdet of the central-difference Jacobian, inverse log-Jacobian = -forward, fit == forward-after-fit; periodic wrapping is run on 18 special reals per interval (bounds, bound -+ 1e-20, +-kP, +-1e12) and must land in [lower, upper), congruent mod P, with zero log-Jacobian.",
      "Finite alphabets; tolerance = 8 x sensitivity of the reference to one ulp of the unit-interval coordinate in the dtype under test + absolute floor; finite differences in float64 only.",
      "DESIGN.md 4/C04")

check("C16", "model_checking", "explicit-state breadth-first search over operation sequences on real sample-set objects against a plain reference model (canonical abstract states, one-step bisimulation check)",
      "From every start object (3 classes x 3 namespaces x 2 dtypes x 8 optional-field subsets, 4 value-tagged rows) BFS explores every sequence of {int index, slices, boolean masks, index arrays with repeats/reordering, partition+concatenate at each cut, pickle round trip, to_dict->from_dict flat/nested} to depth 3 (quick) / 4 (thorough); in every reached state every per-row field (incl. log_w and weights), class, namespace, dtype, parameters, temperature and the carried evidence are compared with the reference model; states merged by the abstraction are validated by recomputing all one-step successors from the second history.",
      "Rows identified by values; int selection is terminal (1-D row); operations producing empty sets are outside the alphabet.",
      "DESIGN.md 4/C16", engine="bfs")
check("C19", "model_checking", "explicit-state breadth-first search over context nestings, body operations and injected exceptions on a real Aspire instance (ExitStack-driven), with a one-step bisimulation check of the abstraction",
      "BFS over all action sequences of {enter one of 4 context configurations, leave the innermost context, run a real importance-sampling call in the body, raise an Exception subclass, raise KeyboardInterrupt} up to nesting depth 3/4 and 6/7 actions: at every exit (normal or by exception) likelihood and prior (object identity) and the checkpoint defaults (identity and content) must equal what they were at the matching entry, after a full unwind the pre-entry state (attribute absent if it was absent), each pool closed and joined exactly once iff asked, overrides really active while inside, the injected exception propagates unchanged.",
      "ExitStack == nested with-statements; FakePool; faults between body operations, not inside __enter__/__exit__.",
      "DESIGN.md 4/C19", engine="bfs")

check("C15", "exploration", "exhaustive configuration enumeration (class x ordered namespace pair x dtype x request spelling x field subset x route) with value/width/field oracles; sampler populations observed on real runs",
      "The full product of sample class x 9 ordered namespace pairs x source float width x requested-dtype spelling (none, string, native object) x optional-field subset x route {to_namespace, to_numpy, from_samples(xp=)} is executed and must succeed, preserve every value and optional field (incl. temperature and evidence) and keep or honour the float width; the dtype helpers are run over 8 spellings x 3 namespaces (resolve, encode/decode, convert to every namespace); the dtype of every population a real SMC run builds, stores, restores from a checkpoint and returns is compared with the requested precision (smc, emcee_smc x numpy, torch[, jax] x float32/64); sample_posterior's output-namespace option over all pairs; zuko/flowjax outputs are consumed by Samples in every namespace.",
      "Stub kernels for the sampler part; values chosen so that a silent narrowing changes them.",
      "DESIGN.md 4/C15")
