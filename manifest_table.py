# Table consumed by tools_manifest.py (python3 tools_manifest.py regenerates MANIFEST.json)
NOTES = ("All checks run the real aspire code from /repo/src in a fresh interpreter; stub kernel packages under "
         "/verif/envstubs stand in for minipcn/orng/emcee/blackjax, which are not installed offline. See DESIGN.md.")
NOT_APPLICABLE = {}

check("C09", "exploration", "exhaustive enumeration of every resampling index tuple over a finite population alphabet (stateless explorer on real code)",
      "Every index tuple the generator can return is executed against the real SMCSamples.resample for every population/temperature/size/namespace/dtype of a finite alphabet; the probability vector handed to the generator and the row identity of every copied field are compared with an mpmath reference.",
      "Finite alphabet of log-weights; generator modelled by a facade that records the p vector; float tolerance is rounding-aware.",
      "DESIGN.md 4/C09")

check("C01", "exploration", "probability-weighted exhaustive exploration of all random outcomes of the real sampler on finite lattice instances (exact expectation, stateless explorer)",
      "For lattice proposals/targets the unnormalised Feynman-Kac identity E[Zhat*mean f(x_final)] = h*sum L*pi*J*f holds exactly for every N; the explorer enumerates every proposal draw, resampling index tuple and kernel proposal/accept outcome of the real Aspire.sample_posterior (importance, smc, emcee_smc x none/default/logit/probit/periodic preconditioning x 1-3 fixed temperature steps x n_final_samples x namespaces), sums path probabilities (must be 1) and compares the exact expectation with the closed form for f = 1, x, x^2.",
      "Stub lattice Metropolis kernel stands in for minipcn/emcee; adaptive schedules, affine whitening and flow preconditioning are population-dependent (finite-N identity is not a theorem) and are covered by the one-step checks C05/C07/C08/C09/C10; N=2, K<=3, T<=3.",
      "DESIGN.md 4/C01")
