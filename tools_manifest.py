#!/usr/bin/env python3
"""Regenerates MANIFEST.json from the table below (kept in one place so the
manifest stays valid while checks are added)."""
import json
import os

V = os.path.dirname(os.path.abspath(__file__))
BASE_OFF = ("cd /repo && env -u ASPIRE_VERIF /venv/bin/python -m pytest -ra -q -p no:cacheprovider --timeout=900 "
            "--continue-on-collection-errors --junitxml=/tmp/aspire_baseline_off.junit.xml")

CHECKS = {}


def check(pid, level, technique, text, note, design_ref, engine="explorer"):
    CHECKS[pid] = dict(level=level, technique=technique, text=text, note=note, design_ref=design_ref, engine=engine)


exec(open(os.path.join(V, "manifest_table.py")).read())

props = [json.loads(l)["id"] for l in open(os.path.join(V, "properties.jsonl"))]
checks = []
na = []
for pid in props:
    if pid in CHECKS:
        c = CHECKS[pid]
        checks.append({
            "property_id": pid,
            "quick_cmd": f"/venv/bin/python run_check.py {pid} --tier quick",
            "thorough_cmd": f"/venv/bin/python run_check.py {pid} --tier thorough",
            "evidence_file": f"/verif/evidence/{pid}.json",
            "replay_cmd_template": f"/venv/bin/python run_check.py {pid} --replay {{path}}",
            "engine": c["engine"],
            "level_claimed": {"category": c["level"], "text": c["text"], "design_ref": c["design_ref"]},
            "level_note": c["note"],
            "technique": c["technique"],
        })
    else:
        na.append({"property_id": pid, "reason": NOT_APPLICABLE.get(pid, "check not built yet (build in progress); no claim made")})

manifest = {
    "version": 1,
    "setup_cmd": "/venv/bin/python -c \"import sys; sys.path.insert(0,'/verif'); import env; env.setup(); print('aspire verification framework ready')\"",
    "hooks": {
        "guard": "ASPIRE_VERIF",
        "enable": "checks import /repo/src/aspire from the working tree in a fresh interpreter with ASPIRE_VERIF=1; no hook code exists in /repo (every seam is a public argument or an instance attribute wrapped from the harness)",
        "baseline_off_cmd": BASE_OFF,
        "source_commits": [],
        "add_only": True,
    },
    "engines": [
        {"name": "explorer", "path": "/verif/mc/explorer.py", "serves_properties": sorted(p for p, c in CHECKS.items() if c["engine"] == "explorer"),
         "kind_free_text": "hand-written stateless choice-point explorer (prefix-replay DFS, deviation bound, probability-weighted) and small-scope exhaustive enumeration running the real aspire code"},
        {"name": "bfs", "path": "/verif/mc/bfs.py", "serves_properties": sorted(p for p, c in CHECKS.items() if c["engine"] == "bfs"),
         "kind_free_text": "explicit-state breadth-first search whose transitions call the real aspire methods; canonical abstract states with a one-step bisimulation check"},
    ],
    "checks": checks,
    "not_applicable": na,
    "notes": NOTES,
}
json.dump(manifest, open(os.path.join(V, "MANIFEST.json"), "w"), indent=1)
print(f"MANIFEST.json: {len(checks)} checks, {len(na)} not claimed")
