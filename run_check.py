#!/venv/bin/python
"""Entry point of every registered check.

  run_check.py <ID> [--tier quick|thorough] [--workers N]
  run_check.py <ID> --replay replays/<ID>-<n>.json

Exit 0: property held on everything explored (known findings are printed as
KNOWN-FINDING lines).  Exit 1 + ``VIOLATION property=<ID> replay=<path>``:
a violation not listed in known_findings.json.  Exit 2: harness error."""
import argparse
import importlib
import json
import os
import sys
import time
import traceback

VERIF = os.path.dirname(os.path.abspath(__file__))
os.chdir(VERIF)
sys.path.insert(0, VERIF)
os.environ.setdefault("PYTHONHASHSEED", "0")
os.environ["PYTHONDONTWRITEBYTECODE"] = "1"
sys.dont_write_bytecode = True


def main():
    ap = argparse.ArgumentParser()
    ap.add_argument("pid")
    ap.add_argument("--tier", default=os.environ.get("VERIF_TIER", "quick"), choices=["quick", "thorough"])
    ap.add_argument("--workers", type=int, default=int(os.environ.get("VERIF_WORKERS", "16")))
    ap.add_argument("--replay")
    args = ap.parse_args()
    pid = args.pid.upper()
    try:
        seed = int(os.environ.get("VERIF_SEED", "0"))
    except ValueError:
        seed = 0
    t0 = time.time()
    try:
        import env

        env.setup()
        from mc import report as rep

        mod = importlib.import_module(f"checks.{pid.lower()}")
        if args.replay:
            with open(args.replay) as f:
                rec = json.load(f)
            r = mod.replay(rec["case"])
            for v in r.violations:
                print(f"REPLAY-VIOLATION property={pid} signature={v['signature']}")
                print("  detail=" + json.dumps(v["detail"])[:1500])
            if not r.violations:
                print(f"REPLAY-OK property={pid}: the recorded case no longer violates")
            return 1 if r.violations else 0
        r = mod.run(args.tier, seed, args.workers)
        return rep.finish(pid, args.tier, seed, mod.LEVEL, mod.RULE, mod.ASSUMPTIONS, r, t0,
                          extra_coverage=getattr(mod, "extra_coverage", lambda r: None)(r))
    except SystemExit:
        raise
    except BaseException:
        traceback.print_exc()
        print(f"[{pid}] HARNESS ERROR (exit 2) - not a verdict", file=sys.stderr)
        return 2


if __name__ == "__main__":
    sys.exit(main())
