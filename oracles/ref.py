"""Reference definitions in extended precision (mpmath, 50 digits), written
from the mathematical statements in properties.jsonl, not from aspire's code."""
import math

import mpmath as mp
import numpy as np

mp.mp.dps = 50
NINF = mp.mpf("-inf")


def mpf(v):
    v = float(v)
    if v == float("inf"):
        return mp.mpf("inf")
    if v == float("-inf"):
        return NINF
    return mp.mpf(v)


def logsumexp(vals):
    vals = [mpf(v) for v in vals]
    m = max(vals)
    if m == NINF:
        return NINF
    return m + mp.log(mp.fsum(mp.exp(v - m) for v in vals))


def log_mean_exp(vals):
    return logsumexp(vals) - mp.log(len(vals))


def ess(logw):
    """(sum w)^2 / sum w^2 computed on shifted weights."""
    logw = [mpf(v) for v in logw]
    m = max(logw)
    w = [mp.exp(v - m) for v in logw]
    return mp.fsum(w) ** 2 / mp.fsum(x * x for x in w)


def normalised(logw):
    logw = [mpf(v) for v in logw]
    m = max(logw)
    w = [mp.exp(v - m) for v in logw]
    s = mp.fsum(w)
    return [x / s for x in w]


def rel_evidence_error(logw):
    """sqrt(sum (w - Zhat)^2 / (n (n-1))) / Zhat, shift invariant."""
    logw = [mpf(v) for v in logw]
    n = len(logw)
    m = max(logw)
    w = [mp.exp(v - m) for v in logw]
    z = mp.fsum(w) / n
    return mp.sqrt(mp.fsum((x - z) ** 2 for x in w) / (n * (n - 1))) / z


def delta_var(logu):
    """Var(u) / (N mean(u)^2), population variance, shift invariant."""
    logu = [mpf(v) for v in logu]
    n = len(logu)
    m = max(logu)
    u = [mp.exp(v - m) for v in logu]
    mean = mp.fsum(u) / n
    var = mp.fsum((x - mean) ** 2 for x in u) / n
    return var / (n * mean * mean)


def ulp(x, dt):
    x = abs(float(x))
    if not math.isfinite(x):
        return 0.0
    return float(np.spacing(np.asarray(x, dtype=dt)))


def close(val, ref, rel, abs_=0.0):
    """val (float) vs ref (mpf/float) within rel*|ref| + abs_; inf/nan aware."""
    val = float(val)
    reff = float(ref)
    if math.isnan(val) or math.isnan(reff):
        return math.isnan(val) and math.isnan(reff)
    if math.isinf(reff) or math.isinf(val):
        return val == reff
    return abs(val - reff) <= rel * abs(reff) + abs_
