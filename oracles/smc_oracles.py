"""Oracles evaluated on the record of one SMC execution (schedule_harness)."""
import math

import mpmath as mp

from oracles import ref


def _a(pop):
    return [l + p - q for l, p, q in zip(pop["L"], pop["P"], pop["Q"])]


def spread_class(rec):
    """Coarse description of the populations seen (for finding signatures)."""
    names = [rec["init"]] + list(rec["pops"])
    worst = "flat"
    for n in ("mild", "peaked", "ext7", "ext9"):
        if n in names:
            worst = n
    return worst


def check_schedule(rec):
    """C06.  Returns list of (signature, detail)."""
    out = []
    cfg = rec["cfg"]
    o = cfg["opts"]
    exc = rec["exception"]
    h = rec["history"]
    betas = h["beta"] if h else []
    adaptive = o.get("adaptive", True)
    n_steps = o.get("n_steps")
    min_step = o.get("min_step")
    max_n = o.get("max_n_steps")
    if exc is not None:
        name, site, msg = exc
        if name == "HorizonExceeded":
            stalled = len(betas) >= 2 and betas[-1] == betas[-2]
            names = [rec["init"]] + list(rec["pops"])
            pop = names[-1]
            tol = o.get("beta_tolerance") or 1e-6
            out.append((f"C06/spins-forever/{'adaptive' if adaptive else 'fixed'}/"
                        f"{'beta-not-advancing' if stalled else 'slow'}/pop={pop}/tol={tol:g}",
                        {"betas_tail": betas[-3:], "iterations": len(betas)}))
        else:
            names = [rec["init"]] + list(rec["pops"])
            pop = names[min(len(betas), len(names) - 1)] if names else "?"
            if name == "ValueError" and "NaN" in msg and pop == "dead" and adaptive and betas and (betas[-1] == (betas[-2] if len(betas) > 1 else 0.0)):
                why = "zero-length-step-on-population-with-zero-likelihood-particle"
            elif max_n is not None and min_step is None:
                why = "max_n_steps-without-min_step"
            else:
                why = "other"
            out.append((f"C06/raises/{name}/{site}/{why}", {"msg": msg, "betas": betas, "population": pop}))
        return out
    prev = 0.0
    tol = o.get("beta_tolerance") or 1e-6
    for t, b in enumerate(betas):
        if adaptive and b == prev and not min_step:
            # one root cause, one signature: the bisection returned beta* == beta_prev
            names = [rec["init"]] + list(rec["pops"])
            pop = names[t] if t < len(names) else names[-1]
            out.append((f"C06/adaptive/zero-length-step/pop={pop}/tol={tol:g}", {"t": t, "beta": b}))
            continue
        if not (0.0 < b <= 1.0):
            out.append(("C06/beta-out-of-range", {"t": t, "beta": b}))
        if not (b > prev):
            out.append(("C06/not-strictly-increasing", {"t": t, "beta": b, "prev": prev}))
        if adaptive and min_step is not None and b < 1.0 and (b - prev) < min_step * (1 - 1e-12):
            out.append(("C06/min_step-not-honoured", {"t": t, "beta": b, "prev": prev, "min_step": min_step}))
        prev = b
    iters = len(betas)
    if max_n is not None:
        # a step cap is honoured by adaptive and fixed schedules alike
        if iters > max_n:
            out.append(("C06/max_n_steps-exceeded", {"iterations": iters, "max_n_steps": max_n}))
        if iters < max_n and (not betas or betas[-1] != 1.0):
            out.append(("C06/stopped-early-below-1", {"betas": betas}))
    else:
        if not betas or betas[-1] != 1.0:
            out.append(("C06/final-beta-not-1", {"betas": betas[-3:]}))
    if not adaptive and n_steps is not None:
        expected = n_steps if max_n is None else min(n_steps, max_n)
        if iters != expected:
            out.append((f"C06/fixed-schedule/iterations!=n_steps/n={n_steps}/got={iters}", {"betas_tail": betas[-3:]}))
    nfinal = o.get("n_final_samples")
    extra = 1 if (nfinal is not None and nfinal != cfg["N"]) else 0
    if rec["kernel_invocations"] != iters + extra:
        out.append(("C06/kernel-invocations!=iterations", {"kernel": rec["kernel_invocations"], "iterations": iters}))
    sh = h["sample_history"]
    if sh and betas and betas[-1] == 1.0 and sh[-1]["beta"] != 1.0:
        out.append(("C06/final-population-not-at-1", {"beta": sh[-1]["beta"]}))
    return out


def check_history(rec, resumed=False):
    """C18."""
    out = []
    h = rec["history"]
    if h is None or rec["exception"] is not None:
        return out
    n = len(h["beta"])
    cfg = rec.get("cfg") or {}
    enlarged = bool((cfg.get("opts") or {}).get("n_final_samples") or cfg.get("n_final"))
    for series in ("ess", "ess_target", "eff_target", "log_norm_ratio", "log_norm_ratio_var", "mcmc_acceptance", "mcmc_autocorr"):
        if series not in h or (series == "mcmc_autocorr" and not h[series]):
            continue
        if len(h[series]) != n:
            extra = len(h[series]) - n
            why = "after-n_final_samples-enlargement" if (enlarged and extra == 1 and series.startswith("mcmc_")) else "other"
            out.append((f"C18/series-length/{series}/extra={extra}/{why}", {"len": len(h[series]), "iterations": n}))
    sh = h["sample_history"]
    # histories of float32 populations are only accurate to float32 rounding
    rt = 5e-5 if any(s.get("dtype") == "float32" for s in sh) else 1e-9
    if len(sh) != n + 1:
        out.append((f"C18/sample_history-length/{'resumed' if resumed else 'fresh'}/extra={len(sh) - n - 1}",
                    {"len": len(sh), "iterations": n}))
        return out
    if sh[0]["beta"] != 0.0:
        out.append(("C18/initial-population-beta", {"beta": sh[0]["beta"]}))
    for t in range(1, n + 1):
        if sh[t]["beta"] != h["beta"][t - 1]:
            out.append(("C18/stored-population-beta", {"t": t, "pop": sh[t]["beta"], "beta": h["beta"][t - 1]}))
        prev = sh[t - 1]
        b0 = 0.0 if t == 1 else h["beta"][t - 2]
        b1 = h["beta"][t - 1]
        a = _a(prev)
        logu = [(b1 - b0) * v for v in a]
        e = float(ref.ess(logu))
        if not ref.close(h["ess"][t - 1], e, rt, 1e-12):
            out.append(("C18/ess-mismatch", {"t": t, "got": h["ess"][t - 1], "ref": e}))
        lr = float(ref.log_mean_exp(logu))
        if not ref.close(h["log_norm_ratio"][t - 1], lr, rt, rt * (1 + abs(b1 - b0) * max([abs(v) for v in a if math.isfinite(v)] or [0.0]))):
            out.append(("C18/ratio-mismatch", {"t": t, "got": h["log_norm_ratio"][t - 1], "ref": lr}))
        et = float(ref.ess([(1.0 - b0) * v for v in a]))
        if not ref.close(h["ess_target"][t - 1], et, rt, 1e-12):
            out.append(("C18/ess_target-mismatch", {"t": t, "got": h["ess_target"][t - 1], "ref": et}))
    return out


def check_evidence(rec):
    """C08."""
    out = []
    h = rec["history"]
    if h is None or rec["exception"] is not None or rec["result"] is None:
        return out
    n = len(h["beta"])
    sh = h["sample_history"]
    if len(sh) < n + 1:
        return out
    # a resumed run may carry a duplicated restored population (C18's business): align from the end
    tot = mp.mpf(0)
    var = mp.mpf(0)
    for t in range(1, n + 1):
        prev = sh[t - 1]
        b0 = 0.0 if t == 1 else h["beta"][t - 2]
        b1 = h["beta"][t - 1]
        if sh[t]["beta"] is not None and sh[t]["beta"] != b1:
            # the ratio is recorded for beta_{t-1} -> b1 but the particles were moved to another temperature
            out.append(("C08/ratio-recorded-for-another-step-than-the-one-taken", {"t": t, "recorded_beta": b1, "population_beta": sh[t]["beta"]}))
        a = _a(prev)
        logu = [(b1 - b0) * v for v in a]
        lr = ref.log_mean_exp(logu)
        scale = 1 + abs(b1 - b0) * max([abs(v) for v in a if math.isfinite(v)] or [0.0])
        if not ref.close(h["log_norm_ratio"][t - 1], lr, 1e-9, 1e-9 * scale):
            out.append(("C08/step-ratio", {"t": t, "got": h["log_norm_ratio"][t - 1], "ref": float(lr)}))
        v = ref.delta_var(logu)
        if not ref.close(h["log_norm_ratio_var"][t - 1], v, 1e-8, 1e-15):
            out.append(("C08/step-variance", {"t": t, "got": h["log_norm_ratio_var"][t - 1], "ref": float(v)}))
        tot += lr
        var += v
    res = rec["result"]
    if not ref.close(res["log_evidence"], tot, 1e-9, 1e-9 * (1 + max(abs(x) for x in h["log_norm_ratio"]))):
        out.append(("C08/sum-of-ratios", {"got": res["log_evidence"], "ref": float(tot), "ratios": h["log_norm_ratio"]}))
    if not ref.close(res["log_evidence_error"], mp.sqrt(var), 1e-8, 1e-12):
        out.append(("C08/error-root-sum-variances", {"got": res["log_evidence_error"], "ref": float(mp.sqrt(var))}))
    return out


def check_resampling(rec):
    """C09 inside the sampler loop: every probability vector the generator was handed is the normalised incremental
    weight of the step the particles are about to take (population t-1, beta_{t-1} -> beta_t; for the enlargement to
    n_final_samples: last population, last beta -> 1), with the requested size."""
    out = []
    h = rec["history"]
    if h is None or rec["exception"] is not None or rec["result"] is None:
        return out
    betas = h["beta"]
    sh = h["sample_history"]
    if len(sh) < len(betas) + 1:
        return out
    N = rec["cfg"]["N"]
    expected = []  # (label, population, b0, b1, size)
    for t in range(1, len(betas) + 1):
        b0 = 0.0 if t == 1 else betas[t - 2]
        b1 = betas[t - 1]
        if b1 == b0:
            continue  # a zero-length step re-uses the population without drawing (C06's business)
        expected.append((f"iteration-{t}", sh[t - 1], b0, b1, N))
    nfinal = rec["cfg"]["opts"].get("n_final_samples")
    if nfinal is not None and nfinal != N:
        expected.append(("enlargement", sh[len(betas)], betas[-1] if betas else 0.0, 1.0, nfinal))
    got = rec["p_records"]
    if len(got) != len(expected):
        out.append(("C09/as-run/number-of-resamplings", {"got": len(got), "expected": [e[0] for e in expected]}))
        return out
    for (label, pop, b0, b1, size), (n, sz, p) in zip(expected, got):
        a = _a(pop)
        kind = "enlargement" if label == "enlargement" else "iteration"
        if n != len(a) or (sz if sz is not None else 1) != size:
            out.append((f"C09/as-run/{kind}/size", {"step": label, "n": n, "size": sz, "want_n": len(a), "want_size": size}))
            continue
        logu = [(b1 - b0) * v if (b1 - b0) != 0 else 0.0 for v in a]
        m = max(logu)
        w = [mp.exp(mp.mpf(v) - m) if math.isfinite(v) else mp.mpf(0) for v in logu]
        tot = sum(w)
        ref_p = [float(x / tot) for x in w]
        if any(abs(x - y) > 1e-9 for x, y in zip(p, ref_p)):
            out.append((f"C09/as-run/{kind}/probability-vector", {"step": label, "b0": b0, "b1": b1, "got": list(p), "ref": ref_p}))
    return out
