"""Model-checking machinery for mj-will/aspire (see /verif/DESIGN.md)."""
