"""Deterministic greedy pairwise covering array over a dict of option lists."""
import itertools


def pairwise(options, valid=lambda c: True):
    keys = list(options)
    allc = [dict(zip(keys, vals)) for vals in itertools.product(*(options[k] for k in keys))]
    allc = [c for c in allc if valid(c)]
    need = set()
    for c in allc:
        for i, j in itertools.combinations(range(len(keys)), 2):
            need.add((i, repr(c[keys[i]]), j, repr(c[keys[j]])))
    chosen = []
    while need:
        best, gain = None, -1
        for c in allc:
            g = sum(1 for i, j in itertools.combinations(range(len(keys)), 2)
                    if (i, repr(c[keys[i]]), j, repr(c[keys[j]])) in need)
            if g > gain:
                best, gain = c, g
        chosen.append(best)
        for i, j in itertools.combinations(range(len(keys)), 2):
            need.discard((i, repr(best[keys[i]]), j, repr(best[keys[j]])))
    return chosen, allc
