"""Stateless choice-point explorer (DESIGN.md section 3.1).

``explore(body, bound, weighted)`` enumerates *every* sequence of answers to the
``ctx.choose`` calls made by ``body`` (depth-first, by prefix replay on fresh
objects).  Option 0 is the default environment answer; every other option
costs one deviation.  ``bound=None`` explores the complete tree, ``bound=d``
all executions with at most ``d`` deviations.

With ``weighted=True`` every option carries its probability; zero-probability
options are pruned, the path probability is tracked and the caller can form
exact expectations; the explorer checks that the path probabilities of a
complete tree sum to one.
"""
from __future__ import annotations

import hashlib
import json


class HarnessError(Exception):
    """The harness (not aspire) misbehaved: never reported as a verdict."""


class Ctx:
    def __init__(self, prefix=(), weighted=False):
        self.prefix = list(prefix)
        self.weighted = weighted
        self.choices = []  # index taken at each point
        self.arity = []  # number of (non-pruned) options at each point
        self.labels = []
        self.probs = []  # probability of the taken option
        self.prob = 1.0
        self.keys = []  # state keys published at choice points
        self.notes = {}

    # ------------------------------------------------------------------
    def choose(self, options, weights=None, label="", key=None):
        """Return one element of ``options`` (an int n means range(n))."""
        if isinstance(options, int):
            options = list(range(options))
        else:
            options = list(options)
        if weights is not None:
            weights = [float(w) for w in weights]
            if len(weights) != len(options):
                raise HarnessError("weights/options length mismatch")
            keep = [i for i, w in enumerate(weights) if w > 0.0]
            if not keep:
                raise HarnessError(f"choice point {label!r} has no option with positive weight")
            options = [options[i] for i in keep]
            weights = [weights[i] for i in keep]
            tot = sum(weights)
            weights = [w / tot for w in weights]
        elif self.weighted:
            weights = [1.0 / len(options)] * len(options)
        n = len(options)
        if n == 0:
            raise HarnessError(f"choice point {label!r} has no options")
        pos = len(self.choices)
        if pos < len(self.prefix):
            c = self.prefix[pos]
            if not (0 <= c < n):
                raise HarnessError(
                    f"replay divergence at point {pos} ({label!r}): choice {c} but {n} options"
                )
        else:
            c = 0
        self.choices.append(c)
        self.arity.append(n)
        self.labels.append(label)
        if weights is not None:
            self.probs.append(weights[c])
            self.prob *= weights[c]
        else:
            self.probs.append(None)
        if key is not None:
            self.keys.append((pos, key))
        return options[c]

    @property
    def deviations(self):
        return sum(1 for c in self.choices if c != 0)


class Execution:
    __slots__ = ("choices", "arity", "labels", "prob", "result", "keys", "deviations")

    def __init__(self, ctx, result):
        self.choices = list(ctx.choices)
        self.arity = list(ctx.arity)
        self.labels = list(ctx.labels)
        self.prob = ctx.prob
        self.result = result
        self.keys = list(ctx.keys)
        self.deviations = ctx.deviations


def run_one(body, prefix=(), weighted=False):
    ctx = Ctx(prefix, weighted)
    result = body(ctx)
    if len(ctx.choices) < len(ctx.prefix):
        raise HarnessError(
            f"replay divergence: prefix has {len(ctx.prefix)} choices, execution made {len(ctx.choices)}"
        )
    return Execution(ctx, result)


def explore(body, bound=None, weighted=False, max_executions=None, first_prefixes=None):
    """Yield an Execution for every choice sequence within ``bound`` deviations.

    ``first_prefixes`` restricts the search to the sub-trees below the given
    prefixes (used to split a tree over worker processes)."""
    stack = [list(p) for p in (first_prefixes if first_prefixes is not None else [[]])]
    stack.reverse()
    n = 0
    while stack:
        prefix = stack.pop()
        ex = run_one(body, prefix, weighted)
        n += 1
        yield ex
        if max_executions is not None and n >= max_executions:
            return
        base_dev = sum(1 for c in ex.choices[: len(prefix)] if c != 0)
        # children: deviate at one later point; push in reverse so that the
        # earliest/lowest alternative is explored first
        children = []
        dev = base_dev
        for i in range(len(prefix), len(ex.choices)):
            # choices after the prefix are all 0 (default)
            if bound is None or dev + 1 <= bound:
                for alt in range(1, ex.arity[i]):
                    children.append(ex.choices[:i] + [alt])
        stack.extend(reversed(children))


def split_prefixes(body, depth, weighted=False, bound=None):
    """Split a tree at ``depth``: returns (prefixes, complete) where
    ``prefixes`` are all choice prefixes of length ``depth`` (within ``bound``
    deviations) whose sub-trees can be explored independently with
    ``explore(first_prefixes=[p])`` and ``complete`` are the prefixes of
    executions that end before ``depth`` choice points."""
    frontier = [[]]
    complete = []
    for _ in range(depth):
        nxt = []
        for p in frontier:
            ex = run_one(body, p, weighted)
            if len(ex.choices) <= len(p):
                complete.append(p)
                continue
            dev = sum(1 for c in p if c != 0)
            for alt in range(ex.arity[len(p)]):
                if bound is not None and dev + (alt != 0) > bound:
                    continue
                nxt.append(p + [alt])
        frontier = nxt
    return frontier, complete


def digest(obj):
    return hashlib.sha256(json.dumps(obj, sort_keys=True, default=repr).encode()).hexdigest()[:16]


class StateCounter:
    """Counts distinct published state keys and (key, choice, key') triples."""

    def __init__(self):
        self.states = set()
        self.transitions = set()

    def add(self, ex):
        prev = None
        for pos, key in ex.keys:
            k = digest(key)
            self.states.add(k)
            if prev is not None:
                self.transitions.add((prev[1], tuple(ex.choices[prev[0]: pos]), k))
            prev = (pos, k)
