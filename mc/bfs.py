"""Explicit-state breadth-first search over operation histories (DESIGN 3.2).

A state *is* a history that reaches it; ``build(history)`` replays it on fresh
real objects; ``canon(obj)`` maps them to a small hashable abstract state.
Whenever an abstract state is reached by a second history, all its one-step
successors are recomputed from that second history and must canonise like the
representative's (one-step bisimulation check of the abstraction)."""
from collections import deque


class BisimulationError(Exception):
    pass


def bfs(starts, build, actions, canon, on_state, max_depth, bisim=True, on_transition=None, terminal=None):
    """starts: list of initial histories (tuples).  build(history) -> object (or
    raises ActionFailed-like exceptions handled by the caller inside build).
    actions(obj) -> list of hashable action labels enabled in that state.
    on_state(obj, history, key) is called once per *history explored* (every
    transition is executed on the implementation).
    Returns dict(states, transitions, depth, fixpoint, histories)."""
    seen = {}  # key -> representative history
    succ_of = {}  # key -> {action: key'}
    checked_second = set()
    mismatches = []
    frontier = deque()
    n_trans = 0
    n_hist = 0
    max_seen_depth = 0
    for h in starts:
        obj = build(tuple(h))
        k = canon(obj)
        n_hist += 1
        on_state(obj, tuple(h), k)
        if k not in seen:
            seen[k] = tuple(h)
            frontier.append((tuple(h), k, 0))
    fixpoint = True
    while frontier:
        hist, key, depth = frontier.popleft()
        max_seen_depth = max(max_seen_depth, depth)
        obj = build(hist)
        if terminal is not None and terminal(obj):
            continue
        if depth >= max_depth:
            if actions(obj):
                fixpoint = False
            continue
        for a in actions(obj):
            nh = hist + (a,)
            nobj = build(nh)
            nk = canon(nobj)
            n_trans += 1
            n_hist += 1
            on_state(nobj, nh, nk)
            if on_transition is not None:
                on_transition(key, a, nk)
            succ_of.setdefault(key, {})[a] = nk
            if nk not in seen:
                seen[nk] = nh
                frontier.append((nh, nk, depth + 1))
            elif bisim and nk not in checked_second and seen[nk] != nh:
                checked_second.add(nk)
                rep = seen[nk]
                robj = build(rep)
                if terminal is not None and terminal(robj):
                    continue
                acts_rep = list(actions(robj))
                acts_new = list(actions(nobj))
                mismatch = None
                if acts_rep != acts_new:
                    mismatch = f"enabled actions differ for merged state {nk}: {rep} vs {nh}"
                else:
                    for b in acts_rep:
                        k1 = canon(build(rep + (b,)))
                        k2 = canon(build(nh + (b,)))
                        n_trans += 2
                        if k1 != k2:
                            mismatch = f"abstraction unsound: {rep}+{b!r} -> {k1} but {nh}+{b!r} -> {k2}"
                            break
                if mismatch is not None:
                    # The implementation distinguishes two histories the abstraction merged.  Keep exploring
                    # from the second history as a state of its own (so that nothing is hidden) and let the
                    # caller decide: with violations found it is evidence of the defect, without it is a
                    # harness error (the abstraction must be refined).
                    mismatches.append(mismatch)
                    split_key = ("split", nk, len(mismatches))
                    seen[split_key] = nh
                    frontier.append((nh, split_key, depth + 1))
    return {"states": len(seen), "transitions": n_trans, "depth": max_seen_depth, "fixpoint": fixpoint,
            "histories": n_hist, "bisim_checked": len(checked_second), "bisim_mismatches": mismatches}
