"""Per-run bookkeeping: coverage counters, violations, evidence file, verdict."""
from __future__ import annotations

import json
import os
import subprocess
import sys
import time

VERIF = os.path.dirname(os.path.dirname(os.path.abspath(__file__)))


def jsonable(o):
    try:
        import numpy as np

        if isinstance(o, np.ndarray):
            return [jsonable(v) for v in o.tolist()]
        if isinstance(o, (np.floating,)):
            return jsonable(float(o))
        if isinstance(o, (np.integer,)):
            return int(o)
        if isinstance(o, np.bool_):
            return bool(o)
    except Exception:
        pass
    if isinstance(o, float):
        if o != o:
            return "nan"
        if o in (float("inf"), float("-inf")):
            return "inf" if o > 0 else "-inf"
        return o
    if isinstance(o, (str, int, bool)) or o is None:
        return o
    if isinstance(o, dict):
        return {str(k): jsonable(v) for k, v in o.items()}
    if isinstance(o, (list, tuple, set, frozenset)):
        return [jsonable(v) for v in o]
    if hasattr(o, "tolist"):
        try:
            return jsonable(o.tolist())
        except Exception:
            pass
    return repr(o)


class Report:
    """Accumulates what one check run covered.  Mergeable across workers."""

    def __init__(self):
        self.evaluations = 0
        self.nontrivial = set()  # digests of distinct non-trivial cases
        self.samples = []
        self.violations = []  # dicts: signature, detail, case
        self.counters = {}
        self.states = set()
        self.transitions = set()
        self.outcomes = set()
        self.notes = []
        self.exhaustive = True
        self.caps = []

    # -- recording ------------------------------------------------------
    def case(self, key=None, nontrivial=True, n=1):
        self.evaluations += n
        if nontrivial and key is not None:
            self.nontrivial.add(key if isinstance(key, (str, int)) else repr(key))

    def sample(self, obj, limit=300):
        if len(self.samples) < limit:
            self.samples.append(jsonable(obj))

    def count(self, name, n=1):
        self.counters[name] = self.counters.get(name, 0) + n

    def violation(self, signature, detail, case):
        # keep at most 5 full records per signature, but count all
        self.count("violations:" + signature)
        same = [v for v in self.violations if v["signature"] == signature]
        if len(same) < 5:
            self.violations.append(
                {"signature": signature, "detail": jsonable(detail), "case": jsonable(case)}
            )

    def cap(self, text):
        self.exhaustive = False
        self.caps.append(text)

    # -- merging (multiprocessing) ---------------------------------------
    def dump(self):
        return {
            "evaluations": self.evaluations,
            "nontrivial": list(self.nontrivial),
            "samples": self.samples,
            "violations": self.violations,
            "counters": self.counters,
            "states": list(self.states),
            "transitions": list(self.transitions),
            "outcomes": [o if isinstance(o, (str, int)) else repr(o) for o in self.outcomes],
            "notes": self.notes,
            "exhaustive": self.exhaustive,
            "caps": self.caps,
        }

    def merge(self, d):
        if isinstance(d, Report):
            d = d.dump()
        self.evaluations += d["evaluations"]
        self.nontrivial.update(d["nontrivial"])
        for s in d["samples"]:
            self.sample(s)
        for v in d["violations"]:
            same = [w for w in self.violations if w["signature"] == v["signature"]]
            if len(same) < 5:
                self.violations.append(v)
        for k, n in d["counters"].items():
            self.counters[k] = self.counters.get(k, 0) + n
        self.states.update(d["states"])
        self.transitions.update(tuple(t) if isinstance(t, list) else t for t in d["transitions"])
        self.outcomes.update(d["outcomes"])
        self.notes.extend(x for x in d["notes"] if x not in self.notes)
        if not d["exhaustive"]:
            self.exhaustive = False
        self.caps.extend(x for x in d["caps"] if x not in self.caps)


# ----------------------------------------------------------------------
def load_findings():
    path = os.path.join(VERIF, "known_findings.json")
    if not os.path.exists(path):
        return []
    with open(path) as f:
        return json.load(f)["findings"]


def finish(pid, tier, seed, level, rule, assumptions, report, t0, extra_coverage=None):
    """Resolve violations against known findings, write evidence, print verdict.

    Returns the process exit code."""
    findings = load_findings()
    known = {
        f["signature"]: f
        for f in findings
        if f["property"] == pid and f.get("status") == "known"
    }
    unlisted = []
    listed = {}
    for v in report.violations:
        if v["signature"] in known:
            listed.setdefault(v["signature"], v)
        else:
            unlisted.append(v)
    os.makedirs(os.path.join(VERIF, "replays", "known"), exist_ok=True)
    import hashlib

    for sig, v in sorted(listed.items()):
        n = report.counters.get("violations:" + sig, 1)
        print(f"KNOWN-FINDING: property={pid} {sig} :: {known[sig]['what']} (seen in {n} explored cases)")
        kpath = os.path.join(VERIF, "replays", "known", f"{pid}-{hashlib.sha1(sig.encode()).hexdigest()[:10]}.json")
        with open(kpath, "w") as f:
            json.dump({"property": pid, "signature": sig, "detail": v["detail"], "case": v["case"], "known": True}, f, indent=1)
    os.makedirs(os.path.join(VERIF, "replays"), exist_ok=True)
    import glob

    for old in glob.glob(os.path.join(VERIF, "replays", f"{pid}-*.json")):
        os.remove(old)
    seen_sig = {}
    for v in unlisted:
        k = seen_sig.get(v["signature"], 0)
        seen_sig[v["signature"]] = k + 1
        if k >= 2:
            continue
        idx = sum(seen_sig.values())
        path = os.path.join(VERIF, "replays", f"{pid}-{idx}.json")
        with open(path, "w") as f:
            json.dump({"property": pid, "signature": v["signature"], "detail": v["detail"], "case": v["case"]}, f, indent=1)
        print(f"VIOLATION property={pid} replay={path}")
        print(f"  signature={v['signature']}")
        print(f"  detail={json.dumps(v['detail'])[:600]}")
    coverage = {
        "evaluations": int(report.evaluations),
        "distinct_nontrivial": len(report.nontrivial),
        "rule": rule,
        "samples": pick_samples(report.samples, seed),
        "exhaustive": bool(report.exhaustive),
        "counters": {k: v for k, v in sorted(report.counters.items())},
        "distinct_outcomes": len(report.outcomes),
    }
    if report.caps:
        coverage["caps_hit"] = report.caps
    if report.states:
        coverage["states"] = len(report.states)
        coverage["transitions"] = len(report.transitions)
    if report.notes:
        coverage["notes"] = report.notes
    if extra_coverage:
        coverage.update(extra_coverage)
    ev = {
        "property_id": pid,
        "tier": tier,
        "seed": int(seed),
        "level": level,
        "coverage": coverage,
        "assumptions": assumptions,
        "wall_s": round(time.time() - t0, 2),
        "violations": len(unlisted),
        "known_findings_seen": sorted(listed),
    }
    os.makedirs(os.path.join(VERIF, "evidence"), exist_ok=True)
    path = os.path.join(VERIF, "evidence", f"{pid}.json")
    with open(path, "w") as f:
        json.dump(jsonable(ev), f, indent=1)
    validate_evidence(path)
    print(
        f"[{pid}] tier={tier} evaluations={coverage['evaluations']} distinct_nontrivial={coverage['distinct_nontrivial']}"
        f" states={coverage.get('states', '-')} transitions={coverage.get('transitions', '-')}"
        f" outcomes={coverage['distinct_outcomes']} exhaustive={coverage['exhaustive']}"
        f" known={len(listed)} violations={len(unlisted)} wall={ev['wall_s']}s"
    )
    if coverage["evaluations"] < 1 or coverage["distinct_nontrivial"] < 2:
        print(f"[{pid}] HARNESS ERROR: vacuous run", file=sys.stderr)
        return 2
    return 1 if unlisted else 0


def pick_samples(samples, seed, k=6):
    """k explored cases spread over the run; VERIF_SEED rotates which ones."""
    n = len(samples)
    if n <= k:
        return list(samples)
    step = n / k
    off = (int(seed) * 7919) % n
    return [samples[(off + int(i * step)) % n] for i in range(k)]


def validate_evidence(path):
    schema = "/root/.vp/EVIDENCE.schema.json"
    if not os.path.exists(schema):
        schema = os.path.join(VERIF, "schemas", "EVIDENCE.schema.json")
    code = (
        "import json,sys,jsonschema;"
        "jsonschema.validate(json.load(open(sys.argv[1])), json.load(open(sys.argv[2])))"
    )
    for py in ("python3-vt", "/opt/veriftools/pyvenv/bin/python"):
        try:
            r = subprocess.run([py, "-c", code, path, schema], capture_output=True, text=True, timeout=60)
        except (FileNotFoundError, subprocess.TimeoutExpired):
            continue
        if r.returncode != 0:
            print("HARNESS ERROR: evidence does not validate:\n" + r.stderr[-2000:], file=sys.stderr)
            sys.exit(2)
        return True
    return False
