"""Process-pool helper: every worker imports aspire once (spawn, 1 thread)."""
import multiprocessing as mp
import os
import sys


def _watch_parent(ppid):
    import threading
    import time

    def loop():
        while True:
            time.sleep(2.0)
            if os.getppid() != ppid:
                os._exit(3)

    threading.Thread(target=loop, daemon=True).start()


def _init():
    sys.path.insert(0, os.path.dirname(os.path.dirname(os.path.abspath(__file__))))
    _watch_parent(os.getppid())
    import env

    env.setup()


def _call(args):
    modname, fname, item = args
    import importlib

    mod = importlib.import_module(modname)
    try:
        return getattr(mod, fname)(item)
    finally:
        if os.environ.get("VERIF_COV"):  # development aid (tools/README): workers are terminated without exit handlers
            import env

            env.cov_save()


def pmap(modname, fname, items, workers=16, chunksize=1):
    """Apply module-level function ``modname.fname`` to every item; ordered."""
    items = list(items)
    if workers <= 1 or len(items) <= 1:
        return [_call((modname, fname, it)) for it in items]
    ctx = mp.get_context("spawn")
    with ctx.Pool(min(workers, len(items)), initializer=_init) as pool:
        return pool.map(_call, [(modname, fname, it) for it in items], chunksize=chunksize)
