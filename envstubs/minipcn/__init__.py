"""Stub of the ``minipcn`` package: only the surface aspire uses."""
import numpy as np

from _kernel import CONFIG, _like, run_kernel  # noqa: F401

__version__ = "0.0-verif-stub"


class _History:
    def __init__(self, acceptance_rate):
        self.acceptance_rate = acceptance_rate


class Sampler:
    def __init__(self, log_prob_fn, step_fn="tpcn", rng=None, dims=None,
                 target_acceptance_rate=0.234, xp=None, **kwargs):
        self.log_prob_fn = log_prob_fn
        self.step_fn = step_fn
        self.rng = rng
        self.dims = dims
        self.target_acceptance_rate = target_acceptance_rate
        self.xp = xp
        CONFIG.setdefault("constructed", []).append(
            {"pkg": "minipcn", "rng_id": id(rng), "step_fn": step_fn, "tar": target_acceptance_rate}
        )

    def sample(self, x0, n_steps=100, **kwargs):
        chain, acc = run_kernel(self.log_prob_fn, x0, n_steps, rng=self.rng)
        return _like(x0, chain), _History(np.asarray(acc))
