"""Shared core of the stub MCMC kernel packages (environment models).

aspire's SMC/MCMC samplers call external kernel packages (minipcn, emcee,
blackjax, orng) that are not installed in this sandbox.  These stubs implement
exactly the call surface aspire uses and nothing else.  Every kernel here
leaves the target it is given invariant (Metropolis accept/reject on a
symmetric proposal), so aspire's side of the contract is what is checked.

Modes (CONFIG["mode"]):
  lattice   every proposal direction and every accept/reject is an explorer
            choice point with its exact probability (symmetric +-h walk)
  prw       Gaussian random-walk Metropolis driven only by the generator
            object the kernel was given
  det       deterministic Metropolis sweep: proposal and uniform are hashes of
            the current point, so the kernel needs no random source at all
  teleport  CONFIG["teleport"](z, log_prob_fn, invocation) returns the new
            population (used by the schedule explorations)
"""
import hashlib

import numpy as np

CONFIG = {
    "mode": "prw",
    "h": 0.5,
    "scale": 0.3,
    "ctx": None,
    "teleport": None,
    "records": None,
    "horizon": None,
    "invocations": 0,
    "probe": None,
    "emcee_seed": None,
    "int_draws": False,
}


class HorizonExceeded(Exception):
    pass


def reset(**kw):
    CONFIG.update(
        mode="prw", h=0.5, scale=0.3, ctx=None, teleport=None, records=None,
        horizon=None, invocations=0, probe=None, emcee_seed=None, int_draws=False,
    )
    CONFIG.update(kw)


def _tonp(a):
    if hasattr(a, "detach"):
        a = a.detach().cpu().numpy()
    return np.asarray(a)


def _like(template, arr):
    mod = type(template).__module__
    if mod.startswith("torch"):
        import torch

        return torch.as_tensor(np.ascontiguousarray(arr), dtype=template.dtype)
    if mod.startswith("jax") or "jaxlib" in mod:
        import jax.numpy as jnp

        return jnp.asarray(arr, dtype=template.dtype)
    return np.asarray(arr, dtype=getattr(template, "dtype", np.float64))


def _hash_unit(arr, salt):
    h = hashlib.sha256(np.ascontiguousarray(arr, dtype=np.float64).tobytes() + salt.encode()).digest()
    return int.from_bytes(h[:8], "little") / 2.0**64


def run_kernel(log_prob_fn, z0, n_steps, rng=None, numpy_io=False):
    """Return (chain[n_steps+1, N, d] as numpy float64, acceptance[n_steps])."""
    CONFIG["invocations"] += 1
    if CONFIG["horizon"] is not None and CONFIG["invocations"] > CONFIG["horizon"]:
        raise HorizonExceeded(f"kernel invoked {CONFIG['invocations']} times")
    template = _tonp(z0) if numpy_io else z0
    z = np.array(_tonp(z0), dtype=np.float64)
    if z.ndim == 1:
        z = z[:, None]
    n, d = z.shape
    records = CONFIG["records"]

    def logp(arr):
        arg = _like(template, arr)
        val = _tonp(log_prob_fn(arg)).astype(np.float64).reshape(-1)
        if records is not None:
            records.append((np.array(arr, dtype=np.float64), val.copy()))
        return val

    if CONFIG["probe"] is not None:
        CONFIG["probe"](log_prob_fn, template)

    mode = CONFIG["mode"]
    chain = [z.copy()]
    acc = []
    if mode == "teleport":
        znew = np.array(CONFIG["teleport"](z.copy(), logp, CONFIG["invocations"]), dtype=np.float64)
        for _ in range(max(int(n_steps), 1)):
            chain.append(znew.copy())
            acc.append(1.0)
        return np.stack(chain), np.array(acc)

    lp = logp(z)
    ctx = getattr(rng, "ctx", None) or CONFIG["ctx"]
    stretch = 1.0
    if CONFIG["int_draws"] and mode == "prw":
        # one bounded-integer draw per invocation (as a kernel that picks a partner particle or a move type does): NumPy
        # serves it from a 32-bit half-word and keeps the other half buffered in the generator's state
        stretch = 1.0 + 0.25 * int(rng.integers(0, 4))
    for step in range(int(n_steps)):
        if mode == "lattice":
            h = CONFIG["h"]
            prop = z.copy()
            for i in range(n):
                m = ctx.choose(2 * d, weights=[1.0 / (2 * d)] * (2 * d), label=f"k{CONFIG['invocations']}s{step}p{i}")
                hk = h[m // 2] if np.ndim(h) else h
                prop[i, m // 2] += hk if m % 2 == 0 else -hk
        elif mode == "prw":
            prop = z + stretch * CONFIG["scale"] * np.asarray(rng.normal(size=z.shape), dtype=np.float64)
        elif mode == "det":
            prop = z.copy()
            for i in range(n):
                for k in range(d):
                    prop[i, k] += CONFIG["scale"] * (2.0 * _hash_unit(z[i], f"p{k}i{i}s{step}") - 1.0)
        else:
            raise RuntimeError(f"unknown stub kernel mode {mode}")
        lp_new = logp(prop)
        with np.errstate(all="ignore"):
            ratio = np.exp(np.minimum(0.0, lp_new - lp))
        ratio = np.where(np.isnan(ratio), 0.0, ratio)
        ratio = np.where(np.isneginf(lp_new), 0.0, ratio)
        ratio = np.where(np.isnan(lp_new), 0.0, ratio)
        ratio = np.where(np.isneginf(lp) & np.isfinite(lp_new), 1.0, ratio)
        if mode == "lattice":
            accept = np.zeros(n, dtype=bool)
            for i in range(n):
                a = float(ratio[i])
                accept[i] = ctx.choose([True, False], weights=[a, 1.0 - a], label=f"k{CONFIG['invocations']}s{step}a{i}")
        elif mode == "prw":
            u = np.asarray(rng.uniform(size=n), dtype=np.float64)
            accept = u < ratio
        else:
            u = np.array([_hash_unit(z[i], f"u{i}s{step}") for i in range(n)])
            accept = u < ratio
        z = np.where(accept[:, None], prop, z)
        lp = np.where(accept, lp_new, lp)
        chain.append(z.copy())
        acc.append(float(np.mean(accept)))
    return np.stack(chain), np.array(acc if acc else [0.0])
