"""Stub of the ``orng`` package.  ``ArrayRNG(backend=...)`` is aspire's
*default* random source for MiniPCNSMC; the harness decides what it is."""
import numpy as np

__version__ = "0.0-verif-stub"
CONFIG = {"factory": None, "seed": 12345, "calls": 0}


def ArrayRNG(backend=None, seed=None, **kwargs):
    CONFIG["calls"] += 1
    if CONFIG["factory"] is not None:
        return CONFIG["factory"]()
    return np.random.default_rng(CONFIG["seed"] if seed is None else seed)
