"""Stub of the ``emcee`` package: only the surface aspire uses."""
import numpy as np

from _kernel import CONFIG, run_kernel

__version__ = "0.0-verif-stub"


class EnsembleSampler:
    def __init__(self, nwalkers, ndim, log_prob_fn, args=None, kwargs=None,
                 vectorize=False, moves=None, pool=None, **extra):
        self.nwalkers = nwalkers
        self.ndim = ndim
        self._fn = log_prob_fn
        self._args = tuple(args or ())
        self._kwargs = dict(kwargs or {})
        self.vectorize = vectorize
        self.moves = moves
        # like real emcee: an own RandomState, seeded from the OS unless the
        # harness owns it through CONFIG["emcee_seed"]
        self._random = np.random.RandomState(CONFIG["emcee_seed"])
        self._chain = None
        self._lp = None
        self._acc = None
        CONFIG.setdefault("constructed", []).append({"pkg": "emcee", "moves": moves, "args": self._args})

    @property
    def random_state(self):
        return self._random.get_state()

    @random_state.setter
    def random_state(self, state):
        try:
            self._random.set_state(state)
        except Exception:
            pass

    def _logp(self, z):
        z = np.asarray(z)
        if self.vectorize:
            return self._fn(z, *self._args, **self._kwargs)
        return np.array([self._fn(zi, *self._args, **self._kwargs) for zi in z])

    def run_mcmc(self, initial_state, nsteps, progress=False, **kwargs):
        z0 = np.asarray(initial_state.detach().cpu().numpy() if hasattr(initial_state, "detach") else initial_state)
        lps = []

        def logp(z):
            v = self._logp(z)
            lps.append(np.asarray(v, dtype=np.float64).reshape(-1))
            return v

        chain, acc = run_kernel(logp, z0, nsteps, rng=self._random, numpy_io=True)
        lps = [l for l in lps if len(l) == z0.shape[0]]  # ignore evaluations made by harness probes
        # log-probability of the *accepted* state at every stored step (what emcee's get_log_prob returns)
        cur = lps[0].copy() if lps else np.full(z0.shape[0], np.nan)
        stored = []
        for t in range(1, len(chain)):
            prop = lps[t] if t < len(lps) else cur
            moved = np.any(chain[t] != chain[t - 1], axis=-1)
            cur = np.where(moved, prop, cur)
            stored.append(cur.copy())
        if stored:
            self._lp = np.stack(stored) if self._lp is None else np.concatenate([self._lp, np.stack(stored)])
        self._chain = chain[1:] if self._chain is None else np.concatenate([self._chain, chain[1:]])
        moved = np.any(chain[1:] != chain[:-1], axis=-1)
        self._acc = moved.mean(axis=0) if len(moved) else np.zeros(z0.shape[0])
        return chain[-1]

    @property
    def acceptance_fraction(self):
        return self._acc

    def get_chain(self, flat=False, discard=0, thin=1):
        c = self._chain[discard::thin]
        if flat:
            return c.reshape(-1, c.shape[-1])
        return c

    def get_log_prob(self, flat=False, discard=0, thin=1):
        lp = self._lp[discard::thin]
        return lp.reshape(-1) if flat else lp

    def get_autocorr_time(self, quiet=False, discard=0, **kwargs):
        return np.ones(self.ndim)
