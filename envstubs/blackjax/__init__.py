"""Stub of the ``blackjax`` package: random-walk Metropolis-Hastings only
(``blackjax.rmh``), pure JAX, usable under jit/vmap/scan like the real one."""
from typing import NamedTuple

import jax
import jax.numpy as jnp

__version__ = "0.0-verif-stub"


class RWState(NamedTuple):
    position: jax.Array
    logdensity: jax.Array


class RWInfo(NamedTuple):
    acceptance_rate: jax.Array
    is_accepted: jax.Array
    proposal: jax.Array


# verification seam: when RECORD["fn"] is set, every (point, log-density) pair the kernel evaluates is handed to it at run time
# (jax.debug.callback works under jit / vmap / scan, whatever the caller wrapped the kernel in)
RECORD = {"fn": None}


def _record(position, logdensity):
    if RECORD["fn"] is not None:
        jax.debug.callback(RECORD["fn"], position, logdensity)


class _RMH:
    def __init__(self, logdensity_fn, proposal_fn):
        self.logdensity_fn = logdensity_fn
        self.proposal_fn = proposal_fn

    def init(self, position, rng_key=None):
        ld = self.logdensity_fn(position)
        _record(position, ld)
        return RWState(position, ld)

    def step(self, rng_key, state):
        k1, k2 = jax.random.split(rng_key)
        prop = self.proposal_fn(k1, state.position)
        lp = self.logdensity_fn(prop)
        _record(prop, lp)
        delta = lp - state.logdensity
        delta = jnp.where(jnp.isnan(delta), -jnp.inf, delta)
        accept = jnp.log(jax.random.uniform(k2)) < delta
        pos = jnp.where(accept, prop, state.position)
        ld = jnp.where(accept, lp, state.logdensity)
        return RWState(pos, ld), RWInfo(jnp.exp(jnp.minimum(0.0, delta)), accept, prop)


def rmh(logdensity_fn, proposal_fn, **kwargs):
    return _RMH(logdensity_fn, proposal_fn)


def _unavailable(name):
    def f(*a, **k):
        raise NotImplementedError(f"blackjax.{name} is not modelled by the verification stub")

    return f


nuts = _unavailable("nuts")
hmc = _unavailable("hmc")
